// Native demonstration of the C19 defect found by `vcheck C19` (harness session_c19_first_build_aborted_in_nested_task, abort point 2/3):
// copy to /repo/pie/tests/ and run `cargo test -p pie --test c19_reserved_require_after_abort --offline`.
// Before the fix commit it fails with "BUG: attempt to consistency check reserved require task dependency"; after it, it passes.
use std::panic::{catch_unwind, AssertUnwindSafe};
use std::sync::atomic::{AtomicBool, Ordering};
use pie::{Context, Pie, Task};
use pie::task::EqualsChecker;

static FAIL: AtomicBool = AtomicBool::new(true);

#[derive(Clone, PartialEq, Eq, Hash, Debug)]
struct Outer;
#[derive(Clone, PartialEq, Eq, Hash, Debug)]
struct Inner;
impl Task for Inner {
  type Output = u8;
  fn execute<C: Context>(&self, _c: &mut C) -> u8 { if FAIL.load(Ordering::SeqCst) { panic!("task failure"); } 7 }
}
impl Task for Outer {
  type Output = u8;
  fn execute<C: Context>(&self, c: &mut C) -> u8 { c.require(&Inner, EqualsChecker) + 1 }
}

#[test]
fn usable_after_nested_task_panic() {
  let mut pie = Pie::default();
  let r = catch_unwind(AssertUnwindSafe(|| { pie.new_session().require(&Outer) }));
  assert!(r.is_err());
  FAIL.store(false, Ordering::SeqCst);
  let out = pie.new_session().require(&Outer);
  assert_eq!(out, 8);
}
