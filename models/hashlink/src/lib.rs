//! Verification model of hashlink 0.8.4 LinkedHashSet (subset used by pie_graph), heap-free.
//! NOTE: like the real crate, `insert` of an existing value moves it to the BACK and returns false.
use std::borrow::Borrow;
use std::marker::PhantomData;
pub const CAP: usize = 6;

pub struct LinkedHashSet<T, S = ()> { v: [Option<T>; CAP], len: usize, _s: PhantomData<S> }
impl<T, S> Default for LinkedHashSet<T, S> { fn default() -> Self { Self { v: [const { None }; CAP], len: 0, _s: PhantomData } } }
impl<T: std::fmt::Debug, S> std::fmt::Debug for LinkedHashSet<T, S> {
  fn fmt(&self, f: &mut std::fmt::Formatter<'_>) -> std::fmt::Result { f.debug_set().entries(self.iter()).finish() }
}
impl<T, S> LinkedHashSet<T, S> {
  pub fn new() -> Self { Self::default() }
  pub fn len(&self) -> usize { self.len }
  pub fn is_empty(&self) -> bool { self.len == 0 }
  pub fn iter(&self) -> Iter<'_, T> { Iter { v: &self.v, i: 0, len: self.len } }
  pub fn drain(&mut self) -> Drain<'_, T> { let len = self.len; self.len = 0; Drain { v: &mut self.v, i: 0, len } }
  fn remove_at(&mut self, i: usize) -> T {
    let x = self.v[i].take().unwrap();
    let mut j = i;
    while j + 1 < self.len { self.v[j] = self.v[j + 1].take(); j += 1; }
    self.len -= 1;
    x
  }
  fn push(&mut self, x: T) { assert!(self.len < CAP, "KMODEL-CAPACITY: LinkedHashSet"); self.v[self.len] = Some(x); self.len += 1; }
}
impl<T: Eq, S> LinkedHashSet<T, S> {
  fn pos<Q: ?Sized + Eq>(&self, q: &Q) -> Option<usize> where T: Borrow<Q> {
    let mut i = 0;
    while i < self.len { if let Some(x) = &self.v[i] { if x.borrow() == q { return Some(i); } } i += 1; }
    None
  }
  pub fn contains<Q: ?Sized + Eq>(&self, q: &Q) -> bool where T: Borrow<Q> { self.pos(q).is_some() }
  pub fn insert(&mut self, value: T) -> bool {
    match self.pos(&value) {
      Some(i) => { let x = self.remove_at(i); self.push(x); false }
      None => { self.push(value); true }
    }
  }
  pub fn remove<Q: ?Sized + Eq>(&mut self, q: &Q) -> bool where T: Borrow<Q> {
    match self.pos(q) { Some(i) => { self.remove_at(i); true } None => false }
  }
}
pub struct Iter<'a, T> { v: &'a [Option<T>; CAP], i: usize, len: usize }
impl<'a, T> Iterator for Iter<'a, T> {
  type Item = &'a T;
  fn next(&mut self) -> Option<&'a T> { if self.i < self.len { let i = self.i; self.i += 1; self.v[i].as_ref() } else { None } }
}
pub struct Drain<'a, T> { v: &'a mut [Option<T>; CAP], i: usize, len: usize }
impl<'a, T> Iterator for Drain<'a, T> {
  type Item = T;
  fn next(&mut self) -> Option<T> { if self.i < self.len { let i = self.i; self.i += 1; self.v[i].take() } else { None } }
}
impl<'a, T> Drop for Drain<'a, T> { fn drop(&mut self) { while self.i < self.len { self.v[self.i] = None; self.i += 1; } } }
impl<'a, T, S> IntoIterator for &'a LinkedHashSet<T, S> {
  type Item = &'a T; type IntoIter = Iter<'a, T>;
  fn into_iter(self) -> Self::IntoIter { self.iter() }
}
