//! Verification model of hashlink 0.8.4 `LinkedHashSet` (subset used by pie_graph), heap-free, insertion-ordered.
//! NOTE: like the real crate, `insert` of a value that is already present moves it to the BACK and returns false
//! (hashlink 0.8.4 linked_hash_set.rs: `insert` = `self.map.insert(value, ()).is_none()`, and LinkedHashMap::insert on an
//! occupied entry re-attaches the node at the back).
//!
//! CBMC note: all array accesses use concrete indices under symbolic guards (no symbolic-offset pointers).
use std::borrow::Borrow;
use std::marker::PhantomData;
pub const CAP: usize = 6;

pub struct LinkedHashSet<T, S = ()> { v: [Option<T>; CAP], len: usize, _s: PhantomData<S> }
impl<T, S> Default for LinkedHashSet<T, S> { fn default() -> Self { Self { v: [const { None }; CAP], len: 0, _s: PhantomData } } }
impl<T: std::fmt::Debug, S> std::fmt::Debug for LinkedHashSet<T, S> {
  fn fmt(&self, f: &mut std::fmt::Formatter<'_>) -> std::fmt::Result { f.debug_set().entries(self.iter()).finish() }
}
impl<T, S> LinkedHashSet<T, S> {
  pub fn new() -> Self { Self::default() }
  pub fn len(&self) -> usize { self.len }
  pub fn is_empty(&self) -> bool { self.len == 0 }
  pub fn iter(&self) -> Iter<'_, T> { Iter { v: &self.v, i: 0 } }
  pub fn drain(&mut self) -> Drain<'_, T> { self.len = 0; Drain { v: &mut self.v, i: 0 } }
  /// Removes the element at position `i` (which must be < len), shifting the tail down; returns it.
  fn remove_at(&mut self, i: usize) -> Option<T> {
    let mut x = None;
    let mut k = 0;
    while k < CAP {
      if k == i { x = self.v[k].take(); }
      if k >= i && k + 1 < CAP { self.v[k] = self.v[k + 1].take(); }
      k += 1;
    }
    self.len -= 1;
    x
  }
  fn push(&mut self, x: T) {
    assert!(self.len < CAP, "KMODEL-CAPACITY: LinkedHashSet");
    let mut x = Some(x);
    let mut k = 0;
    while k < CAP { if k == self.len { self.v[k] = x.take(); } k += 1; }
    self.len += 1;
  }
}
impl<T: Eq, S> LinkedHashSet<T, S> {
  fn pos<Q: ?Sized + Eq>(&self, q: &Q) -> Option<usize> where T: Borrow<Q> {
    let mut k = 0;
    while k < CAP { if let Some(x) = &self.v[k] { if x.borrow() == q { return Some(k); } } k += 1; }
    None
  }
  pub fn contains<Q: ?Sized + Eq>(&self, q: &Q) -> bool where T: Borrow<Q> { self.pos(q).is_some() }
  pub fn insert(&mut self, value: T) -> bool {
    match self.pos(&value) {
      Some(i) => { let x = self.remove_at(i).unwrap(); self.push(x); false }
      None => { self.push(value); true }
    }
  }
  pub fn remove<Q: ?Sized + Eq>(&mut self, q: &Q) -> bool where T: Borrow<Q> {
    match self.pos(q) { Some(i) => { self.remove_at(i); true } None => false }
  }
}
pub struct Iter<'a, T> { v: &'a [Option<T>; CAP], i: usize }
impl<'a, T> Iterator for Iter<'a, T> {
  type Item = &'a T;
  fn next(&mut self) -> Option<&'a T> {
    // entries are compact: the first None ends the iteration
    if self.i < CAP { let i = self.i; self.i += 1; self.v[i].as_ref() } else { None }
  }
}
pub struct Drain<'a, T> { v: &'a mut [Option<T>; CAP], i: usize }
impl<'a, T> Iterator for Drain<'a, T> {
  type Item = T;
  fn next(&mut self) -> Option<T> { if self.i < CAP { let i = self.i; self.i += 1; self.v[i].take() } else { None } }
}
impl<'a, T> Drop for Drain<'a, T> { fn drop(&mut self) { while self.i < CAP { self.v[self.i] = None; self.i += 1; } } }
impl<'a, T, S> IntoIterator for &'a LinkedHashSet<T, S> {
  type Item = &'a T; type IntoIter = Iter<'a, T>;
  fn into_iter(self) -> Self::IntoIter { self.iter() }
}
