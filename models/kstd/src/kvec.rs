//! Verification model of `Vec<T>`: fixed-capacity inline array (heap-free), same observable behaviour for the methods
//! the code under test uses (push/pop/extend/collect/iteration/slice methods through Deref/swap_remove/clear).
//! Exceeding the capacity is a `KMODEL-CAPACITY` assertion (reported as "bound exceeded", never as a property result).
//!
//! CBMC note: element moves use concrete indices under symbolic guards.
use ::std::mem::MaybeUninit;
use ::std::ops::{Deref, DerefMut};
pub const VCAP: usize = 6;

pub struct Vec<T> { a: [MaybeUninit<T>; VCAP], len: usize }
impl<T> Vec<T> {
  #[inline] pub const fn new() -> Self { Self { a: [const { MaybeUninit::uninit() }; VCAP], len: 0 } }
  #[inline] pub fn with_capacity(_c: usize) -> Self { Self::new() }
  #[inline] pub fn len(&self) -> usize { self.len }
  #[inline] pub fn is_empty(&self) -> bool { self.len == 0 }
  pub fn push(&mut self, x: T) {
    assert!(self.len < VCAP, "KMODEL-CAPACITY: Vec");
    let mut x = Some(x);
    let mut k = 0;
    while k < VCAP { if k == self.len { if let Some(v) = x.take() { self.a[k] = MaybeUninit::new(v); } } k += 1; }
    self.len += 1;
  }
  pub fn pop(&mut self) -> Option<T> {
    if self.len == 0 { return None; }
    self.len -= 1;
    let mut k = 0;
    while k < VCAP { if k == self.len { return Some(unsafe { self.a[k].assume_init_read() }); } k += 1; }
    None
  }
  pub fn clear(&mut self) { while self.pop().is_some() {} }
  pub fn swap_remove(&mut self, index: usize) -> T {
    assert!(index < self.len, "swap_remove index out of bounds");
    let last = self.len - 1;
    self.as_mut_slice().swap(index, last);
    self.pop().unwrap()
  }
  pub fn capacity(&self) -> usize { VCAP }
  pub fn reserve(&mut self, _n: usize) {}
  pub fn shrink_to_fit(&mut self) {}
  pub fn truncate(&mut self, n: usize) { while self.len > n { let _ = self.pop(); } }
  pub fn insert(&mut self, index: usize, x: T) { assert!(index <= self.len, "insertion index out of bounds"); self.push(x); let mut k = self.len - 1; while k > index { self.as_mut_slice().swap(k, k - 1); k -= 1; } }
  pub fn remove(&mut self, index: usize) -> T { assert!(index < self.len, "removal index out of bounds"); let mut k = index; while k + 1 < self.len { self.as_mut_slice().swap(k, k + 1); k += 1; } self.pop().unwrap() }
  pub fn retain<F: FnMut(&T) -> bool>(&mut self, mut f: F) { let mut i = 0; while i < self.len { if f(&self.as_slice()[i]) { i += 1; } else { let _ = self.remove(i); } } }
  pub fn drain(&mut self, _r: ::std::ops::RangeFull) -> IntoIter<T> { ::std::mem::replace(self, Self::new()).into_iter() }
  pub fn append(&mut self, other: &mut Self) { let o = ::std::mem::replace(other, Self::new()); for x in o { self.push(x); } }
  pub fn as_slice(&self) -> &[T] { unsafe { ::std::slice::from_raw_parts(self.a.as_ptr() as *const T, self.len) } }
  pub fn as_mut_slice(&mut self) -> &mut [T] { unsafe { ::std::slice::from_raw_parts_mut(self.a.as_mut_ptr() as *mut T, self.len) } }
}
impl<T> Default for Vec<T> { fn default() -> Self { Self::new() } }
impl<T> Drop for Vec<T> {
  fn drop(&mut self) {
    if !::std::mem::needs_drop::<T>() { return; }
    let mut k = 0;
    while k < VCAP { if k < self.len { unsafe { self.a[k].assume_init_drop(); } } k += 1; }
  }
}
impl<T> Deref for Vec<T> { type Target = [T]; fn deref(&self) -> &[T] { self.as_slice() } }
impl<T> DerefMut for Vec<T> { fn deref_mut(&mut self) -> &mut [T] { self.as_mut_slice() } }
impl<T: ::std::fmt::Debug> ::std::fmt::Debug for Vec<T> {
  fn fmt(&self, f: &mut ::std::fmt::Formatter<'_>) -> ::std::fmt::Result { f.debug_list().entries(self.as_slice().iter()).finish() }
}
impl<T: Clone> Clone for Vec<T> {
  fn clone(&self) -> Self { let mut v = Self::new(); let mut k = 0; while k < VCAP { if k < self.len { v.push(self.as_slice()[k].clone()); } k += 1; } v }
}
impl<T: PartialEq> PartialEq for Vec<T> { fn eq(&self, o: &Self) -> bool { self.as_slice() == o.as_slice() } }
impl<T: Eq> Eq for Vec<T> {}
impl<T> ::std::iter::FromIterator<T> for Vec<T> {
  fn from_iter<I: IntoIterator<Item = T>>(it: I) -> Self { let mut v = Self::new(); for x in it { v.push(x); } v }
}
impl<T> ::std::iter::Extend<T> for Vec<T> {
  fn extend<I: IntoIterator<Item = T>>(&mut self, it: I) { for x in it { self.push(x); } }
}
impl<'a, T: Copy + 'a> ::std::iter::Extend<&'a T> for Vec<T> {
  fn extend<I: IntoIterator<Item = &'a T>>(&mut self, it: I) { for x in it { self.push(*x); } }
}
pub struct IntoIter<T> { v: Vec<T>, i: usize }
impl<T> Iterator for IntoIter<T> {
  type Item = T;
  fn next(&mut self) -> Option<T> {
    if self.i >= self.v.len { return None; }
    let i = self.i; self.i += 1;
    let mut k = 0;
    while k < VCAP { if k == i { return Some(unsafe { self.v.a[k].assume_init_read() }); } k += 1; }
    None
  }
  fn size_hint(&self) -> (usize, Option<usize>) { (0, Some(VCAP)) }
}
impl<T> Drop for IntoIter<T> {
  fn drop(&mut self) {
    // drop the elements not yet yielded; prevent Vec::drop from touching the moved-out prefix
    if !::std::mem::needs_drop::<T>() { self.v.len = 0; return; }
    let mut k = 0;
    while k < VCAP { if k >= self.i && k < self.v.len { unsafe { self.v.a[k].assume_init_drop(); } } k += 1; }
    self.v.len = 0;
  }
}
impl<T> IntoIterator for Vec<T> {
  type Item = T; type IntoIter = IntoIter<T>;
  fn into_iter(self) -> IntoIter<T> { IntoIter { v: self, i: 0 } }
}
impl<'a, T> IntoIterator for &'a Vec<T> {
  type Item = &'a T; type IntoIter = ::std::slice::Iter<'a, T>;
  fn into_iter(self) -> Self::IntoIter { self.as_slice().iter() }
}
impl<'a, T> IntoIterator for &'a mut Vec<T> {
  type Item = &'a mut T; type IntoIter = ::std::slice::IterMut<'a, T>;
  fn into_iter(self) -> Self::IntoIter { self.as_mut_slice().iter_mut() }
}
