//! Verification models of std::collections::{HashMap, HashSet}: heap-free association arrays with tombstones.
//! Lookup contract modelled: an entry is found iff hash(k)==hash(q) && k==q (so an Eq/Hash inconsistency of the key type
//! is observable, as with a real hash table: unequal hashes => not found).
//! Iteration order: slot order (deterministic) unless `set_symbolic_order(true)` was called, in which case
//! `HashSet::into_iter` yields its elements in an order chosen by the solver (DESIGN C16).
//!
//! CBMC note: all array accesses use concrete indices under symbolic guards (no symbolic-offset pointers); the hasher
//! uses xor/rotate only (free in SAT).
use ::std::borrow::Borrow;
use ::std::hash::{BuildHasher, Hash, Hasher};
pub const CAP: usize = 12;

static mut SYMBOLIC_ORDER: bool = false;
static mut CONST_HASH: bool = false;
static mut ORDER_MODE: u8 = 0;
/// Harness switch: `HashSet::into_iter` yields its elements in a fixed alternative order: 0 = slot order, 1 = reversed,
/// 2 = rotated left, 3 = rotated right, 4 = first two swapped, 5 = last two swapped (for sets of up to three elements these
/// are all six permutations). The harness picks the mode by a solver-chosen case split, so each arm stays concrete.
pub fn set_order_mode(m: u8) { unsafe { ORDER_MODE = m; } }
/// Harness switch: make `HashSet::into_iter` order solver-chosen.
pub fn set_symbolic_order(on: bool) { unsafe { SYMBOLIC_ORDER = on; } }
/// Harness switch: all keys hash to the same value (forces every lookup to rely on `Eq`).
pub fn set_const_hash(on: bool) { unsafe { CONST_HASH = on; } }

#[derive(Clone, Default, Debug)]
pub struct RandomState;
pub struct KHasher(u64);
impl KHasher { #[inline] fn mix(&mut self, x: u64) { self.0 = (self.0 ^ x).rotate_left(7) ^ 0x9E37_79B9_7F4A_7C15; } }
impl Hasher for KHasher {
  #[inline] fn finish(&self) -> u64 { if unsafe { CONST_HASH } { 0 } else { self.0 } }
  #[inline] fn write(&mut self, bytes: &[u8]) { let mut i = 0; while i < bytes.len() { self.mix(bytes[i] as u64); i += 1; } }
  #[inline] fn write_u8(&mut self, i: u8) { self.mix(i as u64) }
  #[inline] fn write_u16(&mut self, i: u16) { self.mix(i as u64) }
  #[inline] fn write_u32(&mut self, i: u32) { self.mix(i as u64) }
  #[inline] fn write_u64(&mut self, i: u64) { self.mix(i) }
  #[inline] fn write_usize(&mut self, i: usize) { self.mix(i as u64) }
  #[inline] fn write_u128(&mut self, i: u128) { self.mix(i as u64); self.mix((i >> 64) as u64) }
  #[inline] fn write_i8(&mut self, i: i8) { self.mix(i as u8 as u64) }
  #[inline] fn write_i16(&mut self, i: i16) { self.mix(i as u16 as u64) }
  #[inline] fn write_i32(&mut self, i: i32) { self.mix(i as u32 as u64) }
  #[inline] fn write_i64(&mut self, i: i64) { self.mix(i as u64) }
  #[inline] fn write_isize(&mut self, i: isize) { self.mix(i as u64) }
}
impl BuildHasher for RandomState { type Hasher = KHasher; fn build_hasher(&self) -> KHasher { KHasher(0) } }

/// `used[i]` mirrors `e[i].is_some()`. All occupancy decisions are taken on the explicit flags: when `(u64, K, V)` has a
/// pointer niche, `Option::is_some` is a read of that niche, which CBMC's symbolic execution does not constant-fold, so
/// even an empty map would look symbolic (every slot explored, states merged).
pub struct HashMap<K, V, S = RandomState> { e: [Option<(u64, K, V)>; CAP], used: [bool; CAP], len: usize, s: S }
#[inline(always)]
fn ent<'a, K, V>(e: &'a Option<(u64, K, V)>) -> &'a (u64, K, V) { match e { Some(t) => t, None => unreachable!("kstd model: used flag without entry") } }
#[inline(always)]
fn ent_mut<'a, K, V>(e: &'a mut Option<(u64, K, V)>) -> &'a mut (u64, K, V) { match e { Some(t) => t, None => unreachable!("kstd model: used flag without entry") } }
impl<K, V, S: Default> Default for HashMap<K, V, S> { fn default() -> Self { Self { e: [const { None }; CAP], used: [false; CAP], len: 0, s: S::default() } } }
impl<K, V> HashMap<K, V, RandomState> { pub fn new() -> Self { Self::default() } }
impl<K: ::std::fmt::Debug, V: ::std::fmt::Debug, S> ::std::fmt::Debug for HashMap<K, V, S> {
  fn fmt(&self, f: &mut ::std::fmt::Formatter<'_>) -> ::std::fmt::Result { f.debug_map().entries(self.iter()).finish() }
}
impl<K, V, S> HashMap<K, V, S> {
  pub fn len(&self) -> usize { self.len }
  pub fn is_empty(&self) -> bool { self.len == 0 }
  pub fn clear(&mut self) { let mut i = 0; while i < CAP { if self.used[i] { self.e[i] = None; self.used[i] = false; } i += 1; } self.len = 0; }
  pub fn iter(&self) -> MapIter<'_, K, V> { MapIter { e: &self.e, used: &self.used, i: 0 } }
  /// Stores into the first free slot and returns a reference to the stored value.
  fn push(&mut self, h: u64, k: K, v: V) -> &mut V {
    assert!(self.len < CAP, "KMODEL-CAPACITY: HashMap/HashSet");
    self.len += 1;
    let mut k_ = 0;
    while k_ < CAP {
      if !self.used[k_] {
        self.e[k_] = Some((h, k, v));
        self.used[k_] = true;
        return &mut ent_mut(&mut self.e[k_]).2;
      }
      k_ += 1;
    }
    unreachable!()
  }
}
pub struct MapIter<'a, K, V> { e: &'a [Option<(u64, K, V)>; CAP], used: &'a [bool; CAP], i: usize }
impl<'a, K, V> Iterator for MapIter<'a, K, V> {
  type Item = (&'a K, &'a V);
  fn next(&mut self) -> Option<Self::Item> {
    while self.i < CAP { let i = self.i; self.i += 1; if self.used[i] { let t = ent(&self.e[i]); return Some((&t.1, &t.2)); } }
    None
  }
}
impl<K: Eq + Hash, V, S: BuildHasher> HashMap<K, V, S> {
  fn h<Q: ?Sized + Hash>(&self, q: &Q) -> u64 { let mut h = self.s.build_hasher(); q.hash(&mut h); h.finish() }
  pub fn get<Q: ?Sized + Hash + Eq>(&self, q: &Q) -> Option<&V> where K: Borrow<Q> {
    let hq = self.h(q);
    let mut i = 0;
    while i < CAP { if self.used[i] { let t = ent(&self.e[i]); if t.0 == hq && t.1.borrow() == q { return Some(&t.2); } } i += 1; }
    None
  }
  pub fn get_mut<Q: ?Sized + Hash + Eq>(&mut self, q: &Q) -> Option<&mut V> where K: Borrow<Q> {
    let hq = self.h(q);
    let mut i = 0;
    while i < CAP {
      let hit = self.used[i] && { let t = ent(&self.e[i]); t.0 == hq && t.1.borrow() == q };
      if hit { return Some(&mut ent_mut(&mut self.e[i]).2); }
      i += 1;
    }
    None
  }
  pub fn contains_key<Q: ?Sized + Hash + Eq>(&self, q: &Q) -> bool where K: Borrow<Q> { self.get(q).is_some() }
  pub fn insert(&mut self, k: K, v: V) -> Option<V> {
    match self.get_mut(&k) {
      Some(slot) => Some(::std::mem::replace(slot, v)),
      None => { let h = self.h(&k); self.push(h, k, v); None }
    }
  }
  pub fn remove<Q: ?Sized + Hash + Eq>(&mut self, q: &Q) -> Option<V> where K: Borrow<Q> {
    let hq = self.h(q);
    let mut i = 0;
    while i < CAP {
      let hit = self.used[i] && { let t = ent(&self.e[i]); t.0 == hq && t.1.borrow() == q };
      if hit { self.len -= 1; self.used[i] = false; return match self.e[i].take() { Some(t) => Some(t.2), None => unreachable!("kstd model: used flag without entry") }; }
      i += 1;
    }
    None
  }
  pub fn entry(&mut self, k: K) -> Entry<'_, K, V, S> {
    // two-phase to satisfy the borrow checker without symbolic indices
    if self.contains_key(&k) {
      match self.get_mut(&k) { Some(v) => Entry::Occupied(OccupiedEntry { v, _p: ::std::marker::PhantomData }), None => unreachable!() }
    } else {
      Entry::Vacant(VacantEntry { m: self, k })
    }
  }
}
pub enum Entry<'a, K, V, S = RandomState> { Occupied(OccupiedEntry<'a, K, V, S>), Vacant(VacantEntry<'a, K, V, S>) }
pub struct OccupiedEntry<'a, K, V, S = RandomState> { v: &'a mut V, _p: ::std::marker::PhantomData<(&'a K, &'a S)> }
pub struct VacantEntry<'a, K, V, S = RandomState> { m: &'a mut HashMap<K, V, S>, k: K }
impl<'a, K: Eq + Hash, V, S: BuildHasher> Entry<'a, K, V, S> {
  pub fn and_modify<F: FnOnce(&mut V)>(self, f: F) -> Self {
    match self { Entry::Occupied(o) => { f(&mut *o.v); Entry::Occupied(o) } v => v }
  }
  pub fn or_insert_with<F: FnOnce() -> V>(self, f: F) -> &'a mut V {
    match self {
      Entry::Occupied(o) => o.v,
      Entry::Vacant(v) => { let h = v.m.h(&v.k); v.m.push(h, v.k, f()) }
    }
  }
  pub fn or_insert(self, d: V) -> &'a mut V { self.or_insert_with(|| d) }
  pub fn or_default(self) -> &'a mut V where V: Default { self.or_insert_with(V::default) }
}

pub struct HashSet<T, S = RandomState> { m: HashMap<T, (), S> }
impl<T, S: Default> Default for HashSet<T, S> { fn default() -> Self { Self { m: HashMap::default() } } }
impl<T> HashSet<T, RandomState> { pub fn new() -> Self { Self::default() } }
impl<T: ::std::fmt::Debug, S> ::std::fmt::Debug for HashSet<T, S> {
  fn fmt(&self, f: &mut ::std::fmt::Formatter<'_>) -> ::std::fmt::Result { f.debug_set().entries(self.iter()).finish() }
}
impl<T, S> HashSet<T, S> {
  pub fn len(&self) -> usize { self.m.len() }
  pub fn is_empty(&self) -> bool { self.m.is_empty() }
  pub fn clear(&mut self) { self.m.clear() }
  pub fn iter(&self) -> SetIter<'_, T> { SetIter { it: self.m.iter() } }
}
pub struct SetIter<'a, T> { it: MapIter<'a, T, ()> }
impl<'a, T> Iterator for SetIter<'a, T> { type Item = &'a T; fn next(&mut self) -> Option<&'a T> { self.it.next().map(|p| p.0) } }
impl<T: Eq + Hash, S: BuildHasher> HashSet<T, S> {
  pub fn contains<Q: ?Sized + Hash + Eq>(&self, q: &Q) -> bool where T: Borrow<Q> { self.m.contains_key(q) }
  pub fn insert(&mut self, t: T) -> bool { if self.m.contains_key(&t) { false } else { self.m.insert(t, ()); true } }
  pub fn remove<Q: ?Sized + Hash + Eq>(&mut self, q: &Q) -> bool where T: Borrow<Q> { self.m.remove(q).is_some() }
}
pub struct SetIntoIter<T> { e: [Option<(u64, T, ())>; CAP], used: [bool; CAP], i: usize }
impl<T> Iterator for SetIntoIter<T> {
  type Item = T;
  fn next(&mut self) -> Option<T> {
    while self.i < CAP { let i = self.i; self.i += 1; if self.used[i] { self.used[i] = false; return match self.e[i].take() { Some(t) => Some(t.1), None => unreachable!("kstd model: used flag without entry") }; } }
    None
  }
  // constant hint: keeps `collect::<Vec<_>>()` at a concrete initial allocation size under CBMC
  fn size_hint(&self) -> (usize, Option<usize>) { (0, Some(CAP)) }
}
impl<T, S> IntoIterator for HashSet<T, S> {
  type Item = T; type IntoIter = SetIntoIter<T>;
  fn into_iter(self) -> Self::IntoIter {
    let mut e = self.m.e;
    let mut used = self.m.used;
    if unsafe { SYMBOLIC_ORDER } { permute(&mut e, &mut used); }
    let mode = unsafe { ORDER_MODE };
    if mode != 0 { reorder(&mut e, &mut used, mode); }
    SetIntoIter { e, used, i: 0 }
  }
}
/// Compacts the used entries to the front (keeping slot order) and then applies the fixed permutation `mode`.
fn reorder<X>(e: &mut [Option<X>; CAP], used: &mut [bool; CAP], mode: u8) {
  // compaction
  let mut n = 0;
  let mut i = 0;
  while i < CAP {
    if used[i] { if i != n { e.swap(i, n); used[i] = false; used[n] = true; } n += 1; }
    i += 1;
  }
  if n < 2 { return; }
  match mode {
    1 => { let mut a = 0; let mut b = n - 1; while a < b { e.swap(a, b); a += 1; b -= 1; } }
    2 => { let mut a = 0; while a + 1 < n { e.swap(a, a + 1); a += 1; } }
    3 => { let mut a = n - 1; while a > 0 { e.swap(a, a - 1); a -= 1; } }
    4 => { e.swap(0, 1); }
    _ => { e.swap(n - 2, n - 1); }
  }
}
/// Applies a solver-chosen permutation (sequence of CAP-1 guarded adjacent... full: a chosen sequence of swaps).
fn permute<X>(e: &mut [Option<X>; CAP], used: &mut [bool; CAP]) {
  #[cfg(kani)]
  {
    // selection-style: for each position i choose any j >= i to swap in; reaches every permutation
    let mut i = 0;
    while i + 1 < CAP {
      let j: usize = kani::any();
      kani::assume(j >= i && j < CAP);
      let mut k = i + 1;
      while k < CAP { if k == j { e.swap(i, k); used.swap(i, k); } k += 1; }
      i += 1;
    }
  }
  #[cfg(not(kani))]
  { let _ = (e, used); }
}

// --- wider std API surface, so that realistic refactors of the code under test still compile against the model ----------
impl<K, V, S> HashMap<K, V, S> {
  pub fn hasher(&self) -> &S { &self.s }
  pub fn with_hasher(s: S) -> Self { Self { e: [const { None }; CAP], used: [false; CAP], len: 0, s } }
  pub fn with_capacity_and_hasher(_c: usize, s: S) -> Self { Self::with_hasher(s) }
  pub fn capacity(&self) -> usize { CAP }
  pub fn reserve(&mut self, _n: usize) {}
  pub fn shrink_to_fit(&mut self) {}
  pub fn keys(&self) -> impl Iterator<Item = &K> + '_ { self.iter().map(|p| p.0) }
  pub fn values(&self) -> impl Iterator<Item = &V> + '_ { self.iter().map(|p| p.1) }
  pub fn values_mut(&mut self) -> impl Iterator<Item = &mut V> + '_ { self.e.iter_mut().filter_map(|o| o.as_mut().map(|t| &mut t.2)) }
  pub fn iter_mut(&mut self) -> impl Iterator<Item = (&K, &mut V)> + '_ { self.e.iter_mut().filter_map(|o| o.as_mut().map(|t| (&t.1, &mut t.2))) }
  pub fn retain<F: FnMut(&K, &mut V) -> bool>(&mut self, mut f: F) {
    let mut i = 0;
    while i < CAP {
      if self.used[i] { let keep = { let t = ent_mut(&mut self.e[i]); f(&t.1, &mut t.2) }; if !keep { self.e[i] = None; self.used[i] = false; self.len -= 1; } }
      i += 1;
    }
  }
}
impl<K, V> HashMap<K, V, RandomState> { pub fn with_capacity(_c: usize) -> Self { Self::default() } }
impl<K: Eq + Hash, V, S: BuildHasher> HashMap<K, V, S> {
  pub fn get_key_value<Q: ?Sized + Hash + Eq>(&self, q: &Q) -> Option<(&K, &V)> where K: Borrow<Q> {
    let hq = self.h(q);
    let mut i = 0;
    while i < CAP { if self.used[i] { let t = ent(&self.e[i]); if t.0 == hq && t.1.borrow() == q { return Some((&t.1, &t.2)); } } i += 1; }
    None
  }
}
impl<K: Eq + Hash, V, S: BuildHasher> ::std::iter::Extend<(K, V)> for HashMap<K, V, S> {
  fn extend<I: IntoIterator<Item = (K, V)>>(&mut self, it: I) { for (k, v) in it { self.insert(k, v); } }
}
impl<K: Eq + Hash, V, S: BuildHasher + Default> ::std::iter::FromIterator<(K, V)> for HashMap<K, V, S> {
  fn from_iter<I: IntoIterator<Item = (K, V)>>(it: I) -> Self { let mut m = Self::default(); for (k, v) in it { m.insert(k, v); } m }
}
impl<'a, K, V, S> IntoIterator for &'a HashMap<K, V, S> { type Item = (&'a K, &'a V); type IntoIter = MapIter<'a, K, V>; fn into_iter(self) -> MapIter<'a, K, V> { self.iter() } }
impl<T, S> HashSet<T, S> {
  pub fn hasher(&self) -> &S { self.m.hasher() }
  pub fn with_hasher(s: S) -> Self { Self { m: HashMap::with_hasher(s) } }
  pub fn with_capacity_and_hasher(_c: usize, s: S) -> Self { Self::with_hasher(s) }
  pub fn capacity(&self) -> usize { CAP }
  pub fn reserve(&mut self, _n: usize) {}
  pub fn shrink_to_fit(&mut self) {}
  pub fn retain<F: FnMut(&T) -> bool>(&mut self, mut f: F) { self.m.retain(|k, _| f(k)) }
}
impl<T> HashSet<T, RandomState> { pub fn with_capacity(_c: usize) -> Self { Self::default() } }
impl<T: Eq + Hash, S: BuildHasher> HashSet<T, S> {
  pub fn get<Q: ?Sized + Hash + Eq>(&self, q: &Q) -> Option<&T> where T: Borrow<Q> { self.m.get_key_value(q).map(|p| p.0) }
  pub fn take<Q: ?Sized + Hash + Eq>(&mut self, q: &Q) -> Option<T> where T: Borrow<Q> + Clone { let r = self.get(q).cloned(); if r.is_some() { self.m.remove(q); } r }
}
impl<'a, T, S> IntoIterator for &'a HashSet<T, S> { type Item = &'a T; type IntoIter = SetIter<'a, T>; fn into_iter(self) -> SetIter<'a, T> { self.iter() } }

// --- conveniences used only by /repo's own unit tests when they are run against the models (validate_models.sh) ---------
impl<T: Eq + Hash, S: BuildHasher + Default> ::std::iter::FromIterator<T> for HashSet<T, S> {
  fn from_iter<I: IntoIterator<Item = T>>(it: I) -> Self { let mut s = Self::default(); for x in it { s.insert(x); } s }
}
impl<T: Eq + Hash, S: BuildHasher> ::std::iter::Extend<T> for HashSet<T, S> {
  fn extend<I: IntoIterator<Item = T>>(&mut self, it: I) { for x in it { self.insert(x); } }
}
impl<T: Eq + Hash, S: BuildHasher> PartialEq for HashSet<T, S> {
  fn eq(&self, o: &Self) -> bool { self.len() == o.len() && self.iter().all(|x| o.contains(x)) }
}
impl<T: Eq + Hash, S: BuildHasher> Eq for HashSet<T, S> {}
