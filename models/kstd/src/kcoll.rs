//! Verification models of std::collections::{HashMap, HashSet}: heap-free association arrays.
//! Lookup contract modelled: an entry is found iff hash(k)==hash(q) && k==q.
use ::std::borrow::Borrow;
use ::std::hash::{BuildHasher, Hash, Hasher};
pub const CAP: usize = 12;

#[derive(Clone, Default, Debug)]
pub struct RandomState;
pub struct KHasher(u64);
impl KHasher { #[inline] fn mix(&mut self, x: u64) { self.0 = (self.0.rotate_left(5) ^ x).wrapping_add(0x9E3779B97F4A7C15); } }
impl Hasher for KHasher {
  #[inline] fn finish(&self) -> u64 { self.0 }
  #[inline] fn write(&mut self, bytes: &[u8]) { let mut i = 0; while i < bytes.len() { self.mix(bytes[i] as u64); i += 1; } }
  #[inline] fn write_u8(&mut self, i: u8) { self.mix(i as u64) }
  #[inline] fn write_u16(&mut self, i: u16) { self.mix(i as u64) }
  #[inline] fn write_u32(&mut self, i: u32) { self.mix(i as u64) }
  #[inline] fn write_u64(&mut self, i: u64) { self.mix(i) }
  #[inline] fn write_usize(&mut self, i: usize) { self.mix(i as u64) }
  #[inline] fn write_u128(&mut self, i: u128) { self.mix(i as u64); self.mix((i >> 64) as u64) }
  #[inline] fn write_i8(&mut self, i: i8) { self.mix(i as u8 as u64) }
  #[inline] fn write_i16(&mut self, i: i16) { self.mix(i as u16 as u64) }
  #[inline] fn write_i32(&mut self, i: i32) { self.mix(i as u32 as u64) }
  #[inline] fn write_i64(&mut self, i: i64) { self.mix(i as u64) }
  #[inline] fn write_isize(&mut self, i: isize) { self.mix(i as u64) }
}
impl BuildHasher for RandomState { type Hasher = KHasher; fn build_hasher(&self) -> KHasher { KHasher(0) } }

pub struct HashMap<K, V, S = RandomState> { e: [Option<(u64, K, V)>; CAP], len: usize, s: S }
impl<K, V, S: Default> Default for HashMap<K, V, S> { fn default() -> Self { Self { e: [const { None }; CAP], len: 0, s: S::default() } } }
impl<K, V> HashMap<K, V, RandomState> { pub fn new() -> Self { Self::default() } }
impl<K: ::std::fmt::Debug, V: ::std::fmt::Debug, S> ::std::fmt::Debug for HashMap<K, V, S> {
  fn fmt(&self, f: &mut ::std::fmt::Formatter<'_>) -> ::std::fmt::Result { f.debug_map().entries(self.iter()).finish() }
}
impl<K, V, S> HashMap<K, V, S> {
  pub fn len(&self) -> usize { self.len }
  pub fn is_empty(&self) -> bool { self.len == 0 }
  pub fn clear(&mut self) { let mut i = 0; while i < self.len { self.e[i] = None; i += 1; } self.len = 0; }
  pub fn iter(&self) -> MapIter<'_, K, V> { MapIter { e: &self.e, i: 0, len: self.len } }
  fn push(&mut self, h: u64, k: K, v: V) -> usize { assert!(self.len < CAP, "KMODEL-CAPACITY: HashMap"); let n = self.len; self.e[n] = Some((h, k, v)); self.len += 1; n }
  fn val(&self, i: usize) -> &V { match &self.e[i] { Some(t) => &t.2, None => unreachable!() } }
  fn val_mut(&mut self, i: usize) -> &mut V { match &mut self.e[i] { Some(t) => &mut t.2, None => unreachable!() } }
}
pub struct MapIter<'a, K, V> { e: &'a [Option<(u64, K, V)>; CAP], i: usize, len: usize }
impl<'a, K, V> Iterator for MapIter<'a, K, V> {
  type Item = (&'a K, &'a V);
  fn next(&mut self) -> Option<Self::Item> { if self.i < self.len { let i = self.i; self.i += 1; self.e[i].as_ref().map(|t| (&t.1, &t.2)) } else { None } }
}
impl<K: Eq + Hash, V, S: BuildHasher> HashMap<K, V, S> {
  fn h<Q: ?Sized + Hash>(&self, q: &Q) -> u64 { let mut h = self.s.build_hasher(); q.hash(&mut h); h.finish() }
  fn pos<Q: ?Sized + Hash + Eq>(&self, q: &Q) -> Option<usize> where K: Borrow<Q> {
    let hq = self.h(q);
    let mut i = 0;
    while i < self.len { if let Some(t) = &self.e[i] { if t.0 == hq && t.1.borrow() == q { return Some(i); } } i += 1; }
    None
  }
  pub fn get<Q: ?Sized + Hash + Eq>(&self, q: &Q) -> Option<&V> where K: Borrow<Q> { match self.pos(q) { Some(i) => Some(self.val(i)), None => None } }
  pub fn get_mut<Q: ?Sized + Hash + Eq>(&mut self, q: &Q) -> Option<&mut V> where K: Borrow<Q> { match self.pos(q) { Some(i) => Some(self.val_mut(i)), None => None } }
  pub fn contains_key<Q: ?Sized + Hash + Eq>(&self, q: &Q) -> bool where K: Borrow<Q> { self.pos(q).is_some() }
  pub fn insert(&mut self, k: K, v: V) -> Option<V> {
    match self.pos(&k) {
      Some(i) => Some(::std::mem::replace(self.val_mut(i), v)),
      None => { let h = self.h(&k); self.push(h, k, v); None }
    }
  }
  pub fn remove<Q: ?Sized + Hash + Eq>(&mut self, q: &Q) -> Option<V> where K: Borrow<Q> {
    match self.pos(q) {
      Some(i) => { let t = self.e[i].take(); self.len -= 1; if i != self.len { self.e[i] = self.e[self.len].take(); } t.map(|t| t.2) }
      None => None
    }
  }
  pub fn entry(&mut self, k: K) -> Entry<'_, K, V, S> {
    match self.pos(&k) {
      Some(i) => Entry::Occupied(OccupiedEntry { m: self, i }),
      None => Entry::Vacant(VacantEntry { m: self, k }),
    }
  }
}
pub enum Entry<'a, K, V, S = RandomState> { Occupied(OccupiedEntry<'a, K, V, S>), Vacant(VacantEntry<'a, K, V, S>) }
pub struct OccupiedEntry<'a, K, V, S = RandomState> { m: &'a mut HashMap<K, V, S>, i: usize }
pub struct VacantEntry<'a, K, V, S = RandomState> { m: &'a mut HashMap<K, V, S>, k: K }
impl<'a, K: Eq + Hash, V, S: BuildHasher> Entry<'a, K, V, S> {
  pub fn and_modify<F: FnOnce(&mut V)>(self, f: F) -> Self {
    match self { Entry::Occupied(o) => { f(o.m.val_mut(o.i)); Entry::Occupied(o) } v => v }
  }
  pub fn or_insert_with<F: FnOnce() -> V>(self, f: F) -> &'a mut V {
    match self {
      Entry::Occupied(o) => o.m.val_mut(o.i),
      Entry::Vacant(v) => { let h = v.m.h(&v.k); let n = v.m.push(h, v.k, f()); v.m.val_mut(n) }
    }
  }
  pub fn or_insert(self, d: V) -> &'a mut V { self.or_insert_with(|| d) }
}

pub struct HashSet<T, S = RandomState> { m: HashMap<T, (), S> }
impl<T, S: Default> Default for HashSet<T, S> { fn default() -> Self { Self { m: HashMap::default() } } }
impl<T> HashSet<T, RandomState> { pub fn new() -> Self { Self::default() } }
impl<T: ::std::fmt::Debug, S> ::std::fmt::Debug for HashSet<T, S> {
  fn fmt(&self, f: &mut ::std::fmt::Formatter<'_>) -> ::std::fmt::Result { f.debug_set().entries(self.iter()).finish() }
}
impl<T, S> HashSet<T, S> {
  pub fn len(&self) -> usize { self.m.len() }
  pub fn is_empty(&self) -> bool { self.m.is_empty() }
  pub fn clear(&mut self) { self.m.clear() }
  pub fn iter(&self) -> SetIter<'_, T> { SetIter { it: self.m.iter() } }
}
pub struct SetIter<'a, T> { it: MapIter<'a, T, ()> }
impl<'a, T> Iterator for SetIter<'a, T> { type Item = &'a T; fn next(&mut self) -> Option<&'a T> { self.it.next().map(|p| p.0) } }
impl<T: Eq + Hash, S: BuildHasher> HashSet<T, S> {
  pub fn contains<Q: ?Sized + Hash + Eq>(&self, q: &Q) -> bool where T: Borrow<Q> { self.m.contains_key(q) }
  pub fn insert(&mut self, t: T) -> bool { if self.m.contains_key(&t) { false } else { self.m.insert(t, ()); true } }
  pub fn remove<Q: ?Sized + Hash + Eq>(&mut self, q: &Q) -> bool where T: Borrow<Q> { self.m.remove(q).is_some() }
}
pub struct SetIntoIter<T> { e: [Option<(u64, T, ())>; CAP], i: usize, len: usize }
impl<T> Iterator for SetIntoIter<T> {
  type Item = T;
  fn next(&mut self) -> Option<T> { if self.i < self.len { let i = self.i; self.i += 1; self.e[i].take().map(|t| t.1) } else { None } }
  fn size_hint(&self) -> (usize, Option<usize>) { (self.len - self.i, Some(self.len - self.i)) }
}
impl<T, S> IntoIterator for HashSet<T, S> {
  type Item = T; type IntoIter = SetIntoIter<T>;
  fn into_iter(self) -> Self::IntoIter { SetIntoIter { e: self.m.e, i: 0, len: self.m.len } }
}
