//! `extern crate kstd as std;` facade: everything from real std, except hash-based collections.
pub use ::std::*;
pub mod collections {
  pub use ::std::collections::{BinaryHeap, BTreeMap, BTreeSet, VecDeque, LinkedList};
  pub use crate::kcoll::{HashMap, HashSet};
  pub mod hash_map { pub use crate::kcoll::{HashMap, RandomState, Entry, OccupiedEntry, VacantEntry}; }
  pub mod hash_set { pub use crate::kcoll::HashSet; }
}
pub mod kcoll;
pub mod kvec;
