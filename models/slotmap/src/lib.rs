//! Verification model of slotmap 1.0.7 (subset used by pie_graph): generational arena, heap-free.
//!
//! Observable behaviour modelled: keys are (index, version); a fresh slot gets version 1; `remove` bumps the version so
//! stale keys never match again; removed slots are reused LIFO; iteration is in slot order.
//!
//! CBMC note: every access through a (possibly symbolic) key index goes through `sel`/`sel_mut`, a loop over the
//! *concrete* slot positions, so that the resulting reference is a choice among concrete sub-objects instead of a
//! pointer with a symbolic offset (which CBMC lowers to byte-level extract/update over the whole object).
use std::ops::{Index, IndexMut};
pub const CAP: usize = 6;

pub trait Key: Copy + Eq {
  fn from_parts(idx: u32, version: u32) -> Self;
  fn parts(&self) -> (u32, u32);
}
#[derive(Clone, Copy, PartialEq, Eq, PartialOrd, Ord, Hash, Debug, Default)]
pub struct DefaultKey { idx: u32, version: u32 }
impl Key for DefaultKey {
  #[inline] fn from_parts(idx: u32, version: u32) -> Self { Self { idx, version } }
  #[inline] fn parts(&self) -> (u32, u32) { (self.idx, self.version) }
}
#[derive(Debug)]
/// `occ` mirrors `value.is_some()`; decisions are taken on the flag (a niche-optimised `Option<V>` is not constant-folded by
/// CBMC's symbolic execution).
struct Slot<V> { version: u32, occ: bool, value: Option<V> }
#[derive(Debug)]
pub struct SlotMap<K: Key, V> {
  slots: [Slot<V>; CAP], used: usize, // slots[..used] have been handed out at least once
  free: [u32; CAP], nfree: usize,      // LIFO free list
  num: usize, _k: std::marker::PhantomData<K>,
}
impl<K: Key, V> Default for SlotMap<K, V> {
  fn default() -> Self {
    Self { slots: [const { Slot { version: 0, occ: false, value: None } }; CAP], used: 0, free: [0; CAP], nfree: 0, num: 0, _k: std::marker::PhantomData }
  }
}
impl<K: Key, V> SlotMap<K, V> {
  pub fn new() -> Self { Self::default() }
  pub fn len(&self) -> usize { self.num }
  pub fn is_empty(&self) -> bool { self.num == 0 }
  #[inline]
  fn sel(&self, i: usize) -> Option<&Slot<V>> {
    let mut k = 0;
    while k < CAP { if k == i { return Some(&self.slots[k]); } k += 1; }
    None
  }
  #[inline]
  fn sel_mut(&mut self, i: usize) -> Option<&mut Slot<V>> {
    let mut k = 0;
    while k < CAP { if k == i { return Some(&mut self.slots[k]); } k += 1; }
    None
  }
  pub fn insert(&mut self, value: V) -> K {
    self.num += 1;
    if self.nfree > 0 {
      self.nfree -= 1;
      let idx = self.free[self.nfree];
      let slot = self.sel_mut(idx as usize).unwrap();
      slot.version = slot.version.wrapping_add(1);
      slot.value = Some(value);
      slot.occ = true;
      K::from_parts(idx, slot.version)
    } else {
      assert!(self.used < CAP, "KMODEL-CAPACITY: SlotMap");
      let idx = self.used; self.used += 1;
      let slot = self.sel_mut(idx).unwrap();
      slot.version = 1;
      slot.value = Some(value);
      slot.occ = true;
      K::from_parts(idx as u32, 1)
    }
  }
  #[inline]
  fn live(&self, key: K) -> Option<&Slot<V>> {
    let (idx, version) = key.parts();
    let i = idx as usize;
    if i >= self.used { return None; }
    match self.sel(i) { Some(s) if s.version == version && s.occ => Some(s), _ => None }
  }
  #[inline]
  fn live_mut(&mut self, key: K) -> Option<&mut Slot<V>> {
    let (idx, version) = key.parts();
    let i = idx as usize;
    if i >= self.used { return None; }
    match self.sel_mut(i) { Some(s) if s.version == version && s.occ => Some(s), _ => None }
  }
  pub fn contains_key(&self, key: K) -> bool { self.live(key).is_some() }
  pub fn get(&self, key: K) -> Option<&V> { match self.live(key) { Some(s) => match &s.value { Some(v) => Some(v), None => unreachable!("slotmap model: occ flag without value") }, None => None } }
  pub fn get_mut(&mut self, key: K) -> Option<&mut V> { match self.live_mut(key) { Some(s) => match &mut s.value { Some(v) => Some(v), None => unreachable!("slotmap model: occ flag without value") }, None => None } }
  pub fn remove(&mut self, key: K) -> Option<V> {
    let (idx, _) = key.parts();
    let v = {
      let slot = self.live_mut(key)?;
      let v = slot.value.take();
      slot.occ = false;
      slot.version = slot.version.wrapping_add(1);
      v
    };
    self.free[self.nfree] = idx; self.nfree += 1;
    self.num -= 1;
    v
  }
  pub fn iter(&self) -> Iter<'_, K, V> { Iter { m: self, i: 0 } }
  pub fn values_mut(&mut self) -> ValuesMut<'_, V> { ValuesMut { it: self.slots.iter_mut() } }
}
pub struct Iter<'a, K: Key, V> { m: &'a SlotMap<K, V>, i: usize }
impl<'a, K: Key, V> Iterator for Iter<'a, K, V> {
  type Item = (K, &'a V);
  fn next(&mut self) -> Option<Self::Item> {
    while self.i < CAP {
      let i = self.i; self.i += 1;
      let s = &self.m.slots[i];
      if s.occ { match &s.value { Some(v) => return Some((K::from_parts(i as u32, s.version), v)), None => unreachable!("slotmap model: occ flag without value") } }
    }
    None
  }
}
pub struct ValuesMut<'a, V> { it: std::slice::IterMut<'a, Slot<V>> }
impl<'a, V> Iterator for ValuesMut<'a, V> {
  type Item = &'a mut V;
  fn next(&mut self) -> Option<Self::Item> {
    loop { match self.it.next() { None => return None, Some(s) => if s.occ { match &mut s.value { Some(v) => return Some(v), None => unreachable!("slotmap model: occ flag without value") } } } }
  }
}
impl<K: Key, V> Index<K> for SlotMap<K, V> {
  type Output = V;
  fn index(&self, key: K) -> &V { self.get(key).expect("invalid SlotMap key used") }
}
impl<K: Key, V> IndexMut<K> for SlotMap<K, V> {
  fn index_mut(&mut self, key: K) -> &mut V { self.get_mut(key).expect("invalid SlotMap key used") }
}
