//! Verification model of slotmap 1.0.7 (subset used by pie_graph): generational arena, heap-free.
use std::ops::{Index, IndexMut};
pub const CAP: usize = 6;

pub trait Key: Copy + Eq {
  fn from_parts(idx: u32, version: u32) -> Self;
  fn parts(&self) -> (u32, u32);
}
#[derive(Clone, Copy, PartialEq, Eq, PartialOrd, Ord, Hash, Debug, Default)]
pub struct DefaultKey { idx: u32, version: u32 }
impl Key for DefaultKey {
  #[inline] fn from_parts(idx: u32, version: u32) -> Self { Self { idx, version } }
  #[inline] fn parts(&self) -> (u32, u32) { (self.idx, self.version) }
}
#[derive(Debug)]
struct Slot<V> { version: u32, value: Option<V> }
#[derive(Debug)]
pub struct SlotMap<K: Key, V> {
  slots: [Slot<V>; CAP], used: usize, // slots[..used] have been handed out at least once
  free: [u32; CAP], nfree: usize,      // LIFO free list
  num: usize, _k: std::marker::PhantomData<K>,
}
impl<K: Key, V> Default for SlotMap<K, V> {
  fn default() -> Self {
    Self { slots: [const { Slot { version: 0, value: None } }; CAP], used: 0, free: [0; CAP], nfree: 0, num: 0, _k: std::marker::PhantomData }
  }
}
impl<K: Key, V> SlotMap<K, V> {
  pub fn new() -> Self { Self::default() }
  pub fn len(&self) -> usize { self.num }
  pub fn is_empty(&self) -> bool { self.num == 0 }
  pub fn insert(&mut self, value: V) -> K {
    self.num += 1;
    if self.nfree > 0 {
      self.nfree -= 1;
      let idx = self.free[self.nfree];
      let slot = &mut self.slots[idx as usize];
      slot.version = slot.version.wrapping_add(1);
      slot.value = Some(value);
      K::from_parts(idx, slot.version)
    } else {
      assert!(self.used < CAP, "KMODEL-CAPACITY: SlotMap");
      let idx = self.used; self.used += 1;
      self.slots[idx] = Slot { version: 1, value: Some(value) };
      K::from_parts(idx as u32, 1)
    }
  }
  #[inline]
  fn live(&self, key: K) -> Option<usize> {
    let (idx, version) = key.parts();
    let i = idx as usize;
    if i < self.used && self.slots[i].version == version && self.slots[i].value.is_some() { Some(i) } else { None }
  }
  pub fn contains_key(&self, key: K) -> bool { self.live(key).is_some() }
  pub fn get(&self, key: K) -> Option<&V> { match self.live(key) { Some(i) => self.slots[i].value.as_ref(), None => None } }
  pub fn get_mut(&mut self, key: K) -> Option<&mut V> { match self.live(key) { Some(i) => self.slots[i].value.as_mut(), None => None } }
  pub fn remove(&mut self, key: K) -> Option<V> {
    let i = self.live(key)?;
    let slot = &mut self.slots[i];
    let v = slot.value.take();
    slot.version = slot.version.wrapping_add(1);
    self.free[self.nfree] = i as u32; self.nfree += 1;
    self.num -= 1;
    v
  }
  pub fn iter(&self) -> Iter<'_, K, V> { Iter { m: self, i: 0 } }
  pub fn values_mut(&mut self) -> ValuesMut<'_, V> { let used = self.used; ValuesMut { it: self.slots[..used].iter_mut() } }
}
pub struct Iter<'a, K: Key, V> { m: &'a SlotMap<K, V>, i: usize }
impl<'a, K: Key, V> Iterator for Iter<'a, K, V> {
  type Item = (K, &'a V);
  fn next(&mut self) -> Option<Self::Item> {
    while self.i < self.m.used {
      let i = self.i; self.i += 1;
      let s = &self.m.slots[i];
      if let Some(v) = s.value.as_ref() { return Some((K::from_parts(i as u32, s.version), v)); }
    }
    None
  }
}
pub struct ValuesMut<'a, V> { it: std::slice::IterMut<'a, Slot<V>> }
impl<'a, V> Iterator for ValuesMut<'a, V> {
  type Item = &'a mut V;
  fn next(&mut self) -> Option<Self::Item> {
    loop { match self.it.next() { None => return None, Some(s) => if let Some(v) = s.value.as_mut() { return Some(v); } } }
  }
}
impl<K: Key, V> Index<K> for SlotMap<K, V> {
  type Output = V;
  fn index(&self, key: K) -> &V { self.get(key).expect("invalid SlotMap key used") }
}
impl<K: Key, V> IndexMut<K> for SlotMap<K, V> {
  fn index_mut(&mut self, key: K) -> &mut V { self.get_mut(key).expect("invalid SlotMap key used") }
}
