//! Verification model of dyn-clone 1.0 (`DynClone`, `clone_box`): same behaviour — `clone_box(t)` returns a `Box<T>`
//! holding `t.clone()` of the concrete type behind `t`, with `t`'s vtable.
//!
//! The real crate builds the result by overwriting the data half of a fat pointer through a `*mut *mut ()` cast. Under
//! CBMC that byte-level update makes the vtable half of the new `Box<dyn Trait>` non-constant, so every later virtual call
//! on a cloned trait object is dispatched over *all* implementors (including pie's file-system checkers). The model
//! assembles the fat pointer from (data, metadata) instead, which keeps the vtable a constant.
#![feature(ptr_metadata)]
#![no_std]
extern crate alloc;
use alloc::boxed::Box;

mod sealed { pub struct Private; }
use sealed::Private;

pub trait DynClone {
  #[doc(hidden)]
  fn __clone_box(&self, _: Private) -> *mut ();
}
impl<T: Clone> DynClone for T {
  fn __clone_box(&self, _: Private) -> *mut () { Box::<T>::into_raw(Box::new(self.clone())) as *mut () }
}
pub fn clone_box<T: ?Sized + DynClone>(t: &T) -> Box<T> {
  let data = <T as DynClone>::__clone_box(t, Private);
  let meta = core::ptr::metadata(t as *const T);
  unsafe { Box::from_raw(core::ptr::from_raw_parts_mut::<T>(data, meta)) }
}
pub fn clone<T: Sized + DynClone>(t: &T) -> T { *clone_box(t) }
