#!/bin/bash
# Native validation of the container models (DESIGN §1.1). Decides no property. Offline.
set -e -o pipefail
cd "$(dirname "$0")"
export CARGO_NET_OFFLINE=true
S=$(mktemp -d -p "${VERIF_SCRATCH:-/var/tmp}" verif-models-XXXX)
trap 'rm -rf "$S"' EXIT
# (a) differential driver: model vs real crate
cp -r tools/modelcheck "$S/modelcheck"; mkdir -p "$S/models"; cp -r models/hashlink models/slotmap models/kstd "$S/models/"
sed -i 's#\.\./\.\./models#../models#g' "$S/modelcheck/Cargo.toml"
# capacities large enough for the driver
sed -i 's/pub const CAP: usize = [0-9]*;/pub const CAP: usize = 6;/' "$S/models/hashlink/src/lib.rs" "$S/models/slotmap/src/lib.rs" "$S/models/kstd/src/kcoll.rs"
cp /repo/Cargo.lock "$S/modelcheck/Cargo.lock" 2>/dev/null || true
( cd "$S/modelcheck" && CARGO_TARGET_DIR="$S/tgt" cargo test --offline --lib 2>&1 | grep -E "^test |test result|error"  )
# (b) /repo's own pie_graph unit tests against the models
mkdir -p "$S/g/src"; cp /repo/graph/src/lib.rs "$S/g/src/lib.rs"
python3 - "$S/g/src/lib.rs" <<'PY'
import sys
p=sys.argv[1]; t=open(p).read().split("\n")
for i,l in enumerate(t):
    s=l.strip()
    if not s or s.startswith("//") or s.startswith("#!["): continue
    t.insert(i,"extern crate kstd as std;"); break
open(p,"w").write("\n".join(t))
PY
cat > "$S/g/Cargo.toml" <<'TOML'
[package]
name = "pie_graph"
version = "0.0.1"
edition = "2021"
[workspace]
[dependencies]
slotmap = { path = "../models/slotmap" }
hashlink = { path = "../models/hashlink" }
kstd = { path = "../models/kstd" }
[features]
default = []
serde = []
TOML
sed -i 's/pub const CAP: usize = [0-9]*;/pub const CAP: usize = 12;/' "$S/models/hashlink/src/lib.rs" "$S/models/slotmap/src/lib.rs" "$S/models/kstd/src/kcoll.rs"
( cd "$S/g" && CARGO_TARGET_DIR="$S/tgt2" cargo test --offline --lib 2>&1 | grep -E "^test |test result|^error"  )
echo "model validation ok"
