#!/bin/sh
# Offline setup: nothing persistent to build (vcheck rebuilds its scratch workspace from /repo on every run).
# Validates the container models against the real crates (native differential driver), see DESIGN.md §1.1.
set -e
cd "$(dirname "$0")"
export CARGO_NET_OFFLINE=true
if [ -x ./validate_models.sh ]; then ./validate_models.sh; fi
echo "setup ok"
