#!/usr/bin/env python3
"""Regenerates MANIFEST.json from the table below (kept as code so that it stays consistent with the harness catalogue)."""
import json, os
V = os.path.dirname(os.path.abspath(__file__))
TECH = "bounded symbolic model checking of the compiled Rust (Kani 0.68 -> CBMC 6.11 -> CaDiCaL), unwinding assertions on"
NOTE_BASE = ("Trusted: Kani/CBMC/CaDiCaL; the heap-free container models in /verif/models standing in for slotmap, hashlink and "
             "std HashMap/HashSet (validated natively against the real crates by setup_cmd); two function stubs (insertion sort, "
             "Option::as_ref); a violation is only reported after the solver's counterexample reproduces natively against the real crates.")
CLAIMS = {
 "C12": ("Decided in full for the instantiations O=u8 and O=Result<u8,u8>: for every pair of outputs (o1,o2) and each of the five "
         "checkers (typed API and the object-safe OutputCheckerObj proxy), check(o2, stamp(o1)) is consistent exactly when the "
         "documented relation holds. No loops are involved, so there is no unwinding bound; other payload types are outside the claim.",
         "§4 C12"),
}
NA = {
}
NOT_BUILT = "check not built yet in this round (see DESIGN.md §4 for the plan)"
ALL = ["C%02d" % i for i in range(1, 21)]
checks = []
for pid, (text, ref) in CLAIMS.items():
    checks.append({
        "property_id": pid,
        "quick_cmd": f"./vcheck {pid} --tier quick",
        "thorough_cmd": f"./vcheck {pid} --tier thorough",
        "evidence_file": f"/verif/evidence/{pid}.json",
        "replay_cmd_template": "./vcheck --replay {path}",
        "engine": "kani-cbmc",
        "level_claimed": {"category": "other", "text": text, "design_ref": ref},
        "level_note": NOTE_BASE,
        "technique": TECH,
    })
na = []
for pid in ALL:
    if pid in CLAIMS: continue
    na.append({"property_id": pid, "reason": NA.get(pid, NOT_BUILT)})
m = {
 "version": 1,
 "setup_cmd": "./setup.sh",
 "hooks": {"guard": "cfg(kani) (exists only inside the scratch copy built by vcheck; nothing is committed to /repo)",
           "enable": "vcheck copies /repo/graph/src and /repo/pie/src to a scratch directory, injects `extern crate kstd as std;` and appends `#[cfg(kani)] mod verif_*;` lines there",
           "baseline_off_cmd": "cd /repo && cargo test --workspace --no-fail-fast --offline",
           "source_commits": [], "add_only": True},
 "engines": [{"name": "kani-cbmc", "path": "/verif/vcheck", "serves_properties": sorted(CLAIMS),
              "kind_free_text": "Kani 0.68 / CBMC 6.11 / CaDiCaL bounded symbolic model checking of the real source, with native replay of counterexamples"}],
 "checks": checks,
 "not_applicable": na,
 "notes": "Exit 2 from a check means inconclusive (compile failure, solver time-out/memory cap, unwinding bound too small, vacuous cover, counterexample not reproducible natively); it is never reported as success.",
}
json.dump(m, open(os.path.join(V, "MANIFEST.json"), "w"), indent=1)
print("claimed:", sorted(CLAIMS), "n/a:", len(na))
