#!/usr/bin/env python3
"""Regenerates MANIFEST.json from the table below (kept as code so that it stays consistent with the harness catalogue)."""
import json, os
V = os.path.dirname(os.path.abspath(__file__))
TECH = "solver-based: bounded symbolic model checking of the compiled Rust source (Kani 0.68 -> CBMC 6.11 -> CaDiCaL SAT), unwinding assertions on, native replay of counterexamples"
NOTE_BASE = ("Trusted: Kani/CBMC/CaDiCaL; the heap-free container models in /verif/models standing in for slotmap, hashlink and "
             "std HashMap/HashSet (validated natively against the real crates by setup_cmd); two function stubs (insertion sort, "
             "Option::as_ref); a violation is only reported after the solver's counterexample reproduces natively against the real crates.")
MECH = ("Mechanism level plus a few whole top-down sessions of small scripted programs (see evidence bounds.session_level). Mechanism level: the quantifier over whole programs x histories is NOT discharged. What the solver decides is the local step "
        "the property rests on, for every value of the symbolic inputs, from pre-states built with the crate's own store API. ")
CLAIMS = {
 "C01": ("Bounded, session level: for the listed small programs (<= 4 scripted tasks, 3 cells) and histories build / one solver-chosen external change / build / build, "
         "run through the real top-down build code, the returned output and all resource contents equal a from-scratch evaluation of the same programs on the "
         "current state. Longer histories, bottom-up builds and file resources are outside the claim.", "§4 C01"),
 "C12": ("Decided in full for the instantiations O=u8 and O=Result<u8,u8>: for every pair of outputs (o1,o2) and each of the five "
         "checkers (typed API and the object-safe OutputCheckerObj proxy), check(o2, stamp(o1)) is consistent exactly when the "
         "documented relation holds. No loops are involved, so there is no unwinding bound; other payload types are outside the claim.", "§4 C12"),
 "C10": ("Bounded: the real DAG<u8,u8> is run against a reference model from 14 concrete pre-states; every single operation (quick) / every pair "
         "of operations (thorough) with solver-chosen kind and operands over <= 4 node handles and symbolic payloads; after each operation ranks "
         "are a bijection onto 1..n respecting every edge, add_edge is rejected exactly for self/reachable, rejected insertions leave ranks and "
         "edges unchanged.", "§4 C10"),
 "C11": ("Bounded: same exploration as C10; after every operation every public query (adjacency in first-insertion order with first-insertion "
         "data, contains_edge, reachability incl. query histories of length 2, descendants sorted/unsorted, topo_cmp, removals) is compared with "
         "the reference for every node and ordered pair.", "§4 C11"),
 "C15": ("Unit + store level: for seven task types and two resource types with identical representation and hash, dyn equality holds iff same "
         "concrete type and equal fields (symbolic), equal keys hash equally, and Store node identity / cached outputs follow that identity even "
         "when every hash collides.", "§4 C15"),
 "C17": ("Partly, unit level: CompositeTracker forwards each of the 23 methods once to both children with unchanged arguments in order; each "
         "Tracking helper emits a matching start/end pair; EventTracker's stored events, indices and all query helpers agree with a reference "
         "stream. Well-nestedness over whole builds is outside the claim.", "§4 C17"),
 "C02": (MECH + "check_task re-validates a 3-dependency list in creation order, stops at the first inconsistent one, reuses the cached output iff all "
         "are consistent by their own checker; make_task_consistent executes iff needed, at most once per session.", "§4 C02"),
 "C09": (MECH + "read stamps from the very reader handed out (left fresh), write stamps after write_fn, written_to at call time, require stamps the "
         "returned output; consistency verdicts equal the dependency's own checker verdict for exact, coarse, always-consistent and failing checkers.", "§4 C09"),
 "C18": (MECH + "a checker error at any position of the list makes check_task return None (task re-executed), is reported exactly once and never "
         "aborts; during bottom-up scheduling the erring dependency's task is scheduled and every error is reported.", "§4 C18"),
 "C05": (MECH + "a read aborts with 'Hidden dependency' exactly when the reader does not reach the recorded writer; a write/written_to aborts exactly "
         "when some recorded reader does not reach the writer, before the writer is opened or write_fn runs; otherwise the edge is recorded.", "§4 C05"),
 "C06": (MECH + "a write/written_to to a resource whose recorded writer is another task aborts with 'Overlapping write' before anything is modified "
         "(also when the task already holds a read edge to it); the same writer after reset_task is not an overlap; one write edge results.", "§4 C06"),
 "C07": (MECH + "reserving a require that would close a cycle of length 1-3 (also through a still-reserved edge) aborts with 'Cyclic task dependency'; "
         "otherwise exactly one reserved edge results and nothing executes. The graph-level 'rejected exactly when dst reaches src' is C10.", "§4 C07"),
 "C08": (MECH + "after reset_task and re-recording, the outgoing dependencies and all incoming indexes are exactly those of the latest execution "
         "(also for an execution that never produced an output); a reserved require is upgraded in place with checker and stamp.", "§4 C08"),
 "C04": (MECH + "the scheduling queue never hands out a task that depends on a still-scheduled task, each scheduled task exactly once, also after a "
         "require-now removal and when a new require edge re-ranks the graph between two queue operations; a task is scheduled by a resource change iff its own checker reports inconsistency or fails; a requirer is "
         "consistent bottom-up iff its checker accepts the new output (early cut-off).", "§4 C04"),
 "C16": ("Partly, graph half only: DAG::reorder_nodes - the only place in the anchored code that iterates an unordered container - gives the same add_edge "
         "result and the same topological order whichever of six iteration orders the two HashSets are yielded in (all orders for sets of <= 3 elements), "
         "for every reordering add_edge from 4 (quick) / 8 (thorough) pre-states. Equality of whole event streams across replays is outside the claim.", "§4 C16"),
 "C20": ("Bounded, session level (top-down only): three well-formed scripted programs whose tasks change roles with the parity of one cell (which task writes a "
         "generated cell, which task reads it, which of two tasks requires the other) are run through real top-down sessions across a role flip, in the orders in which the "
         "former role-holder is re-validated before the new one acts, also when the re-execution is caused by a failing dependency check: no build aborts and outputs equal a "
         "from-scratch evaluation. The three orders in which pie does abort although the current state contains no violation are recorded findings (known_findings.json: C20-KF1..3), "
         "each reported as KNOWN-FINDING only after it reproduces natively with the listed panic message. Bottom-up builds, other programs and longer histories are outside the claim.", "§4 C20"),
 "C19": ("Mechanism level, top-down only: the state an aborted build leaves behind is CONSTRUCTED with the crate's own store API (unwinding runs no pie code: the tasks that were executing "
         "are reset, carry the dependencies recorded so far and a reserved require edge to the task they were waiting for) for every abort point of a two-task program "
         "(first build or incremental build; in the outer task before/after its read, in the nested task before/after its read), with the resources afterwards changed or not; "
         "the following real top-down sessions must not hit an internal-invariant panic, must execute the aborted tasks as new, and must return from-scratch results, "
         "also when repeated. Aborts caused by diagnosed violations, panics inside checkers, bottom-up builds and deeper nesting are outside the claim.", "§4 C19"),
 "C14": ("Partly, unit level: for the map resource, stamp/stamp_reader/stamp_writer agree with the stored value or absence and MapEqualsChecker is "
         "consistent exactly when the current value or absence equals the stamped one, after writes through a writer and directly through the "
         "resource state; per-resource-type state slots do not alias (also with a shared state type) and a non-matching state type is replaced for that resource type only. "
         "Longer operation sequences over several key types are outside the claim.", "§4 C14"),
}
NA = {
 "C03": "needs a whole bottom-up build; a task object taken out of the store (trait object inside an enum variant) is not constant-folded by Kani/CBMC, so executing it bottom-up explores every task program and merges (measured, DESIGN §2, §6; re-measured with a single task in the third session: no verdict in 16 min)",
 "C13": "file checkers are thin layers over filesystem syscalls, SystemTime and SHA-256 over file content: not encodable (FFI) / textbook weak target; a symbolic file-system model behind the std facade would mostly decide the model (io::Error's pointer-tagged representation, PathBuf memcmp, BufReader heap buffer, sha2), see DESIGN §6",
}
NOT_BUILT = "check not built yet in this round (see DESIGN.md §4 for the plan)"
ALL = ["C%02d" % i for i in range(1, 21)]
checks = []
for pid, (text, ref) in CLAIMS.items():
    checks.append({
        "property_id": pid,
        "quick_cmd": f"./vcheck {pid} --tier quick",
        "thorough_cmd": f"./vcheck {pid} --tier thorough",
        "evidence_file": f"/verif/evidence/{pid}.json",
        "replay_cmd_template": "./vcheck --replay {path}",
        "engine": "kani-cbmc",
        "level_claimed": {"category": "other", "text": text, "design_ref": ref},
        "level_note": NOTE_BASE,
        "technique": TECH,
    })
na = []
for pid in ALL:
    if pid in CLAIMS: continue
    na.append({"property_id": pid, "reason": NA.get(pid, NOT_BUILT)})
m = {
 "version": 1,
 "setup_cmd": "./setup.sh",
 "hooks": {"guard": "cfg(kani) (exists only inside the scratch copy built by vcheck; nothing is committed to /repo)",
           "enable": "vcheck copies /repo/graph/src and /repo/pie/src to a scratch directory and, only there, injects `extern crate kstd as std;` at each crate root, `use std::kvec::Vec;` in files that use Vec, the layout-only attribute `#[repr(u8)]` before `enum NodeData {` in pie/src/store.rs, and appends `#[cfg(kani)] mod verif_*;` lines; nothing is changed in /repo",
           "baseline_off_cmd": "cd /repo && cargo test --workspace --no-fail-fast --offline",
           "source_commits": [], "add_only": True},
 "engines": [{"name": "kani-cbmc", "path": "/verif/vcheck", "serves_properties": sorted(CLAIMS),
              "kind_free_text": "Kani 0.68 / CBMC 6.11 / CaDiCaL bounded symbolic model checking of the real source, with native replay of counterexamples"}],
 "checks": checks,
 "not_applicable": na,
 "notes": "Exit 2 from a check means inconclusive (compile failure, solver time-out/memory cap, unwinding bound too small, vacuous cover, counterexample not reproducible natively); it is never reported as success.",
}
json.dump(m, open(os.path.join(V, "MANIFEST.json"), "w"), indent=1)
print("claimed:", sorted(CLAIMS), "n/a:", len(na))
