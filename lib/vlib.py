#!/usr/bin/env python3
"""Driver library for /verif: builds a scratch copy of /repo's current graph/ and pie/ sources, injects the
container-model facade and the harness modules, runs Kani/CBMC per harness, parses per-check verdicts, replays
counterexamples natively against the real crates, and writes evidence.  See DESIGN.md §1, §7."""
import concurrent.futures as cf
import hashlib
import json
import os
import re
import resource
import shutil
import signal
import subprocess
import sys
import tempfile
import time

VERIF = os.path.dirname(os.path.dirname(os.path.abspath(__file__)))
REPO = os.environ.get("VERIF_REPO", "/repo")
HARNESS_DIR = os.path.join(VERIF, "harness")
MODELS_DIR = os.path.join(VERIF, "models")
SCRATCH_BASE = os.environ.get("VERIF_SCRATCH", "/var/tmp")
DEFAULT_CAPS = {"slot": 4, "lhs": 4, "map": 4}
STUBS = {
    "sort": ["core::slice::sort::unstable::sort, crate::verif_vk::k_unstable_sort"],
    "optref": ["core::option::Option::<T>::as_ref, crate::verif_vk::k_opt_as_ref"],
    "boxslice": ["alloc::vec::Vec::<T, A>::into_boxed_slice, crate::verif_sup::k_into_boxed_slice"],
}
ENV = dict(os.environ, CARGO_NET_OFFLINE="true", CARGO_TERM_COLOR="never")
ENV.pop("RUSTFLAGS", None)


# ----------------------------------------------------------------------------------------------------------------------
# Harness catalogue (parsed from //@ annotations in /verif/harness/*.rs)

class HFile:
    def __init__(self, path):
        self.path = path
        self.name = os.path.basename(path)
        self.crate = None
        self.attach = None
        self.mod = None
        self.caps = dict(DEFAULT_CAPS)
        self.hashorder = False
        self.vecmodel = False
        self.support = False
        self.harnesses = []
        self.text = open(path).read()


class Harness:
    def __init__(self, hfile, name, kv, line):
        self.file = hfile
        self.name = name
        self.line = line
        self.tier = kv.get("tier", "quick")
        self.prop_tier = {}
        for item in kv.get("props", "").split(","):
            if not item:
                continue
            if item.endswith(":t"):
                self.prop_tier[item[:-2]] = "thorough"
            else:
                self.prop_tier[item] = self.tier
        self.props = list(self.prop_tier)
        self.unwind = kv.get("unwind")
        self.stubs = [s for s in kv.get("stubs", "").split(",") if s]
        self.expect_fail = kv.get("expect_fail")  # regex on check descriptions that MUST fail (must-panic protocol)
        self.timeout = int(kv.get("timeout", "0")) or None
        self.known = kv.get("known")  # id of a known finding this harness demonstrates (expected to fail)
        self.kv = kv

    @property
    def qualified(self):
        # module path of the attach file within the crate
        rel = self.file.attach
        assert rel.startswith("src/")
        p = rel[4:-3]  # strip src/ and .rs
        parts = [x for x in p.split("/") if x not in ("lib", "mod")]
        return "::".join(parts + [self.file.mod, self.name])


_KV = re.compile(r'(\w+)=("(?:[^"\\]|\\.)*"|\S+)')


def _parse_kv(s):
    out = {}
    for k, v in _KV.findall(s):
        if v.startswith('"'):
            v = v[1:-1]
        out[k] = v
    return out


def load_catalogue():
    files = []
    for fn in sorted(os.listdir(HARNESS_DIR)):
        if not fn.endswith(".rs") or fn == "vk.rs":
            continue
        hf = HFile(os.path.join(HARNESS_DIR, fn))
        lines = hf.text.split("\n")
        pending = None
        for i, ln in enumerate(lines):
            s = ln.strip()
            if s.startswith("//@file"):
                kv = _parse_kv(s[len("//@file"):])
                hf.crate, hf.attach, hf.mod = kv["crate"], kv["attach"], kv["mod"]
                if "caps" in kv:
                    for item in kv["caps"].split(","):
                        k, v = item.split(":")
                        hf.caps[k] = int(v)
                hf.hashorder = kv.get("hashorder") == "sym"
                hf.vecmodel = kv.get("vec") == "model"
                hf.support = kv.get("support") == "1"
            elif s.startswith("//@h"):
                pending = (_parse_kv(s[len("//@h"):]), i)
            elif pending is not None:
                m = re.match(r"\s*(?:pub\s+)?fn\s+(\w+)\s*\(", ln)
                if m:
                    hf.harnesses.append(Harness(hf, m.group(1), pending[0], pending[1]))
                    pending = None
        if hf.crate is None:
            raise SystemExit(f"harness file {fn}: missing //@file header")
        files.append(hf)
    return files


def expand_harness_source(hf):
    """Insert attribute lines after each //@h annotation."""
    lines = hf.text.split("\n")
    by_line = {h.line: h for h in hf.harnesses}
    out = []
    for i, ln in enumerate(lines):
        out.append(ln)
        h = by_line.get(i)
        if h:
            out.append("#[cfg_attr(kani, kani::proof)]")
            if h.unwind:
                out.append(f"#[cfg_attr(kani, kani::unwind({h.unwind}))]")
            for st in h.stubs:
                for spec in STUBS[st]:
                    out.append(f"#[cfg_attr(kani, kani::stub({spec}))]")
            out.append("#[cfg_attr(not(kani), test)]")
    return "\n".join(out)


# ----------------------------------------------------------------------------------------------------------------------
# Scratch workspaces

def sha256_file(p):
    h = hashlib.sha256()
    with open(p, "rb") as f:
        h.update(f.read())
    return h.hexdigest()


def _inject_root_line(text, line):
    """Insert `line` before the first item of a crate root (after //! docs and #![..] attributes)."""
    lines = text.split("\n")
    for i, ln in enumerate(lines):
        s = ln.strip()
        if not s or s.startswith("//") or s.startswith("#!["):
            continue
        lines.insert(i, line)
        return "\n".join(lines)
    raise RuntimeError("no injection point found in crate root")


class Scratch:
    def __init__(self, keep=False):
        os.makedirs(SCRATCH_BASE, exist_ok=True)
        self.dir = tempfile.mkdtemp(prefix="verif-", dir=SCRATCH_BASE)
        self.keep = keep

    def cleanup(self):
        if not self.keep:
            shutil.rmtree(self.dir, ignore_errors=True)


def _copy_src(crate, dst):
    src = os.path.join(REPO, crate, "src")
    shutil.copytree(src, os.path.join(dst, "src"))


VEC_FILES = {"graph": ["src/lib.rs"],
             "pie": ["src/pie.rs", "src/context/bottom_up.rs", "src/tracker/event.rs", "src/store.rs"]}


LAYOUT_ATTRS = [("pie", "src/store.rs", "enum NodeData {", "#[repr(u8)]")]


def _inject_after_header(text, line):
    """Insert `line` before the first item of a (non-root) module file."""
    return _inject_root_line(text, line)


def build_kani_ws(root, hfiles, caps, hashorder=False, vecmodel=False):
    """Create the Kani scratch workspace under `root` for the given harness files. Returns dict of source hashes."""
    os.makedirs(root)
    hashes = {}
    # models with capacities substituted
    shutil.copytree(MODELS_DIR, os.path.join(root, "models"))
    for crate, key in (("slotmap", "slot"), ("hashlink", "lhs")):
        p = os.path.join(root, "models", crate, "src", "lib.rs")
        t = open(p).read()
        t, n = re.subn(r"pub const CAP: usize = \d+;", f"pub const CAP: usize = {caps[key]};", t)
        assert n == 1
        open(p, "w").write(t)
    p = os.path.join(root, "models", "kstd", "src", "kcoll.rs")
    t = open(p).read()
    t, n = re.subn(r"pub const CAP: usize = \d+;", f"pub const CAP: usize = {caps['map']};", t)
    assert n == 1
    open(p, "w").write(t)
    for dp, _, fns in os.walk(MODELS_DIR):
        for fn in fns:
            if fn.endswith(".rs"):
                fp = os.path.join(dp, fn)
                hashes["models/" + os.path.relpath(fp, MODELS_DIR)] = sha256_file(fp)
    # crates
    open(os.path.join(root, "Cargo.toml"), "w").write('[workspace]\nmembers = ["graph", "pie"]\nresolver = "2"\n')
    os.makedirs(os.path.join(root, "graph"))
    os.makedirs(os.path.join(root, "pie"))
    open(os.path.join(root, "graph", "Cargo.toml"), "w").write(
        '[package]\nname = "pie_graph"\nversion = "0.0.1"\nedition = "2021"\n[dependencies]\n'
        'slotmap = { path = "../models/slotmap" }\nhashlink = { path = "../models/hashlink" }\n'
        'kstd = { path = "../models/kstd" }\n[features]\ndefault = []\nserde = []\n'
        '[lints.rust]\nunexpected_cfgs = { level = "allow" }\n')
    open(os.path.join(root, "pie", "Cargo.toml"), "w").write(
        '[package]\nname = "pie"\nversion = "0.1.0"\nedition = "2021"\n[dependencies]\n'
        'pie_graph = { path = "../graph" }\ndyn-clone = { path = "../models/dyn-clone" }\nkstd = { path = "../models/kstd" }\n'
        '[features]\nfile_hash_checker = []\n[lints.rust]\nunexpected_cfgs = { level = "allow" }\n')
    shutil.copy(os.path.join(MODELS_DIR, "Cargo.lock"), os.path.join(root, "Cargo.lock"))
    for crate in ("graph", "pie"):
        _copy_src(crate, os.path.join(root, crate))
        for dp, _, fns in os.walk(os.path.join(REPO, crate, "src")):
            for fn in fns:
                fp = os.path.join(dp, fn)
                hashes[os.path.relpath(fp, REPO)] = sha256_file(fp)
    hdir = os.path.join(root, "harness")
    os.makedirs(hdir)
    shutil.copy(os.path.join(HARNESS_DIR, "vk.rs"), os.path.join(hdir, "vk.rs"))
    hashes["harness/vk.rs"] = sha256_file(os.path.join(HARNESS_DIR, "vk.rs"))
    for crate in ("graph", "pie"):
        lib = os.path.join(root, crate, "src", "lib.rs")
        t = open(lib).read()
        t = _inject_root_line(t, "extern crate kstd as std;")
        if crate == "pie":
            t = "#![cfg_attr(kani, feature(allocator_api))]\n" + t
        if vecmodel and "src/lib.rs" in VEC_FILES[crate]:
            t = t.replace("extern crate kstd as std;", "extern crate kstd as std;\n#[allow(unused_imports)] use std::kvec::Vec;", 1)
        t += f'\n#[cfg(kani)]\n#[path = "{hdir}/vk.rs"]\npub(crate) mod verif_vk;\n'
        open(lib, "w").write(t)
    # layout-only attributes: force an explicit tag on enums whose discriminant rustc would hide in a pointer niche
    # (Kani reads such a niche as an integer, which CBMC cannot constant-fold; semantics are unchanged)
    for crate, rel, needle, attr in LAYOUT_ATTRS:
        fp = os.path.join(root, crate, rel)
        if os.path.exists(fp):
            src = open(fp).read()
            if needle in src and (attr + "\n" + needle) not in src:
                open(fp, "w").write(src.replace(needle, attr + "\n" + needle, 1))
                hashes["injected:" + crate + "/" + rel] = attr + " " + needle
    if vecmodel:
        for crate in ("graph", "pie"):
            for rel in VEC_FILES[crate]:
                if rel == "src/lib.rs":
                    continue
                fp = os.path.join(root, crate, rel)
                if os.path.exists(fp) and re.search(r"\bVec\b", open(fp).read()):
                    src = _inject_after_header(open(fp).read(), "#[allow(unused_imports)] use std::kvec::Vec;")
                    open(fp, "w").write(src)
    p = os.path.join(root, "models", "kstd", "src", "kvec.rs")
    tt = open(p).read()
    tt, n = re.subn(r"pub const VCAP: usize = \d+;", f"pub const VCAP: usize = {caps.get('vec', 6)};", tt)
    assert n == 1
    open(p, "w").write(tt)
    for hf in hfiles:
        crate_dir = "graph" if hf.crate == "graph" else "pie"
        exp = os.path.join(hdir, hf.name)
        open(exp, "w").write(expand_harness_source(hf))
        hashes["harness/" + hf.name] = sha256_file(hf.path)
        tgt = os.path.join(root, crate_dir, hf.attach)
        if not os.path.exists(tgt):
            raise RuntimeError(f"attach point {hf.attach} not found in /repo/{crate_dir}")
        with open(tgt, "a") as f:
            f.write(f'\n#[cfg(kani)]\n#[path = "{exp}"]\nmod {hf.mod};\n')
    return hashes


def build_native_ws(root, hfiles):
    """Copy of /repo (real crates, no models, no facade) with harness modules under cfg(test)."""
    def ign(d, names):
        return [n for n in names if n in ("target", ".git")]
    shutil.copytree(REPO, root, ignore=ign)
    hdir = os.path.join(root, "verif_harness")
    os.makedirs(hdir)
    shutil.copy(os.path.join(HARNESS_DIR, "vk.rs"), os.path.join(hdir, "vk.rs"))
    for crate in ("graph", "pie"):
        lib = os.path.join(root, crate, "src", "lib.rs")
        with open(lib, "a") as f:
            f.write(f'\n#[cfg(test)]\n#[path = "{hdir}/vk.rs"]\npub(crate) mod verif_vk;\n')
    for hf in hfiles:
        crate_dir = "graph" if hf.crate == "graph" else "pie"
        exp = os.path.join(hdir, hf.name)
        open(exp, "w").write(expand_harness_source(hf))
        with open(os.path.join(root, crate_dir, hf.attach), "a") as f:
            f.write(f'\n#[cfg(test)]\n#[path = "{exp}"]\nmod {hf.mod};\n')


# ----------------------------------------------------------------------------------------------------------------------
# Running Kani

def _limits(mem_gb):
    def f():
        os.setsid()
        if mem_gb:
            b = int(mem_gb * (1 << 30))
            resource.setrlimit(resource.RLIMIT_AS, (b, b))
    return f


def run_cmd(cmd, cwd, timeout, mem_gb=None, env=None, log=None):
    t0 = time.time()
    p = subprocess.Popen(cmd, cwd=cwd, env=env or ENV, stdout=subprocess.PIPE, stderr=subprocess.STDOUT,
                         preexec_fn=_limits(mem_gb), text=True, errors="replace")
    try:
        out, _ = p.communicate(timeout=timeout)
        timed_out = False
    except subprocess.TimeoutExpired:
        try:
            os.killpg(p.pid, signal.SIGKILL)
        except ProcessLookupError:
            pass
        out, _ = p.communicate()
        timed_out = True
    if log:
        with open(log, "w") as f:
            f.write(out)
    return p.returncode, out, timed_out, time.time() - t0


CHECK_RE = re.compile(
    r"Check (\d+): ([^\n]*)\n\s+- Status: (\w+)\n\s+- Description: \"(.*?)\"\n(?:\s+- Location: (.*?)\n)?", re.S)


def kani_cmd(h, target_dir, extra=()):
    pkg = "pie_graph" if h.file.crate == "graph" else "pie"
    cmd = ["cargo", "kani", "-p", pkg, "--harness", h.qualified, "--exact", "--target-dir", target_dir,
           "-Z", "stubbing", "-Z", "unstable-options", "--no-assertion-reach-checks"]
    if os.environ.get("VERIF_RESTRICT_VTABLE", "1") == "1":
        cmd += ["-Z", "restrict-vtable"]
    cmd += list(extra)
    fs = h.kv.get("fieldsens") or os.environ.get("VERIF_FIELDSENS")
    if fs and "--only-codegen" not in extra:
        cmd += ["--cbmc-args", "--max-field-sensitivity-array-size", str(fs)]
    return cmd


def parse_kani(out):
    checks = []
    for m in CHECK_RE.finditer(out):
        checks.append({"n": int(m.group(1)), "id": m.group(2), "status": m.group(3), "desc": m.group(4),
                       "loc": (m.group(5) or "").strip()})
    res = {"checks": checks}
    m = re.search(r"VERIFICATION:- (\w+)", out)
    res["verdict"] = m.group(1) if m else None
    m = re.search(r"Verification Time: ([\d.]+)s", out)
    res["verification_time_s"] = float(m.group(1)) if m else None
    sy = re.findall(r"Runtime Symex: ([\d.e+-]+)s", out)
    res["symex_s"] = float(sy[-1]) if sy else None
    so = re.findall(r"Runtime Solver: ([\d.e+-]+)s", out)
    res["solver_s"] = sum(float(x) for x in so) if so else None
    dp = re.findall(r"Runtime decision procedure: ([\d.e+-]+)s", out)
    res["decision_s"] = float(dp[-1]) if dp else None
    vc = re.findall(r"([\d]+) variables, ([\d]+) clauses", out)
    if vc:
        res["vars"], res["clauses"] = int(vc[-1][0]), int(vc[-1][1])
    m = re.search(r"Generated (\d+) VCC\(s\), (\d+) remaining after simplification", out)
    if m:
        res["vccs"], res["vccs_remaining"] = int(m.group(1)), int(m.group(2))
    st = re.findall(r"size of program expression: (\d+) steps", out)
    if st:
        res["symex_steps"] = int(st[-1])
    res["stubs_applied"] = sorted(set(re.findall(r"- Stub: (.*)", out)))
    return res


def judge(h, rc, out, timed_out):
    """Return (status, detail) where status ∈ pass | fail | inconclusive; detail carries parsed data."""
    r = parse_kani(out)
    r["rc"] = rc
    if timed_out:
        return "inconclusive", dict(r, reason="timeout")
    if re.search(r"error: internal compiler error|thread 'rustc' panicked|Kani unexpectedly panicked", out):
        return "inconclusive", dict(r, reason="kani internal error")
    if re.search(r"^error(\[E\d+\])?:", out, re.M) and not r["checks"]:
        return "inconclusive", dict(r, reason="compile error")
    if "Status: ERROR" in out or re.search(r"CBMC failed|out of memory|std::bad_alloc|Killed", out):
        if not r["checks"]:
            return "inconclusive", dict(r, reason="cbmc error / out of memory")
    if re.search(r"ran out of memory|Out of memory|std::bad_alloc", out):
        return "inconclusive", dict(r, reason="solver out of memory (cap)")
    if not r["checks"] or r["verdict"] is None:
        return "inconclusive", dict(r, reason="no verdict in output")
    failed = [c for c in r["checks"] if c["status"] == "FAILURE"]
    undet = [c for c in r["checks"] if c["status"] in ("UNDETERMINED", "ERROR")]
    covers = [c for c in r["checks"] if ".cover." in c["id"] or c["status"] in ("SATISFIED", "UNSATISFIABLE")]
    unsat_covers = [c for c in covers if c["status"] in ("UNSATISFIABLE", "UNREACHABLE")]
    unwind_fail = [c for c in failed if "unwinding assertion" in c["desc"]]
    cap_fail = [c for c in failed if "KMODEL-CAPACITY" in c["desc"]]
    unsupported = [c for c in failed if "is not currently supported by Kani" in c["desc"] or
                   "unsupported" in c["desc"].lower()]
    r["n_checks"] = len(r["checks"])
    r["n_covers"] = len(covers)
    r["covers_satisfied"] = len([c for c in covers if c["status"] == "SATISFIED"])
    r["cover_status"] = [(c["desc"], c["status"]) for c in covers]
    r["failed"] = [{"desc": c["desc"], "loc": c["loc"], "id": c["id"]} for c in failed]
    if unwind_fail:
        return "inconclusive", dict(r, reason="unwinding assertion failed (bound too small): " + unwind_fail[0]["loc"])
    if cap_fail:
        return "inconclusive", dict(r, reason="model capacity exceeded: " + cap_fail[0]["desc"])
    if unsupported:
        return "inconclusive", dict(r, reason="unsupported construct reached: " + unsupported[0]["desc"])
    if undet and not failed:
        return "inconclusive", dict(r, reason="undetermined checks: " + undet[0]["desc"])
    exp = re.compile(h.expect_fail) if h.expect_fail else None
    unexpected = [c for c in failed if not (exp and exp.search(c["desc"]))]
    expected = [c for c in failed if exp and exp.search(c["desc"])]
    r["expected_failures_seen"] = len(expected)
    if unexpected:
        return "fail", dict(r, reason="failed checks", unexpected=[{"desc": c["desc"], "loc": c["loc"]} for c in unexpected])
    if exp and not expected:
        return "fail", dict(r, reason="expected abort did not happen (no check matching /%s/ failed)" % h.expect_fail,
                            unexpected=[{"desc": "MISSING-EXPECTED-ABORT " + h.expect_fail, "loc": ""}])
    if unsat_covers:
        return "inconclusive", dict(r, reason="vacuity: cover unsatisfiable: " + unsat_covers[0]["desc"])
    return "pass", r
