//@file crate=pie attach=src/lib.rs mod=verif_c17 caps=slot:4,lhs:4,map:4,vec:4 vec=model
//! C17 (unit level): CompositeTracker forwarding, `Tracking` start/end pairs, EventTracker recording and query helpers.
#![allow(unused, static_mut_refs)]
use std::error::Error;
use std::fmt::Debug;
use crate::verif_vk as vk;
use crate::verif_vk::vcover;
use crate::verif_sup::*;
use crate::pie::Tracking;
use crate::task::EqualsChecker;
use crate::tracker::event::{Event, EventTracker};
use crate::tracker::{CompositeTracker, Tracker};
use crate::trait_object::{KeyObj, ValueObj};

fn any_key(sel: u8, x: u8) -> (Box<dyn KeyObj>, u16) {
  match sel & 3 { 0 => (Box::new(TA(x)), 0x100 | x as u16), 1 => (Box::new(TB(x)), 0x200 | x as u16), 2 => (Box::new(Cell(x)), 0x300 | x as u16), _ => (Box::new(Cell2(x)), 0x400 | x as u16) }
}

/// One call of any of the 23 Tracker methods on CompositeTracker(A, B): both children receive exactly that call, with
/// the same arguments, A before B.
//@h props=C17 tier=quick unwind=26
fn c17_composite_forwards_every_method() {
  let (ks, x) = (vk::u8(), vk::u8());
  let (key, kfp) = any_key(ks, x);
  let mode = vk::below(4);
  let chk = ModeChecker { mode };
  let stamp: u16 = vk::u8() as u16;
  let out: u8 = vk::u8();
  let inc_some = vk::bool();
  let res_sel = vk::below(3);
  let dbg: u8 = 7;
  let err = CellError;
  let inc: Option<&dyn Debug> = if inc_some { Some(&dbg as &dyn Debug) } else { None };
  let res: Result<Option<&dyn Debug>, &dyn Error> = match res_sel { 0 => Ok(None), 1 => Ok(Some(&dbg as &dyn Debug)), _ => Err(&err as &dyn Error) };
  let (cfp, sfp, ofp) = (0x3000 | mode as u16, 0x2000 | stamp, 0x1000 | out as u16);
  let k = key.as_ref();
  split(23, |m| {
    let mut t = CompositeTracker::new(Rec::default(), Rec::default());
    let exp: [u16; 4] = match m + 1 {
      1 => { t.build_start(); [0; 4] }
      2 => { t.build_end(); [0; 4] }
      3 => { t.require_start(k, &chk); [kfp, cfp, 0, 0] }
      4 => { t.require_end(k, &chk, &stamp, &out); [kfp, cfp, sfp, ofp] }
      5 => { t.read_start(k, &chk); [kfp, cfp, 0, 0] }
      6 => { t.read_end(k, &chk, &stamp); [kfp, cfp, sfp, 0] }
      7 => { t.write_start(k, &chk); [kfp, cfp, 0, 0] }
      8 => { t.write_end(k, &chk, &stamp); [kfp, cfp, sfp, 0] }
      9 => { t.check_task_start(k, &chk, &stamp); [kfp, cfp, sfp, 0] }
      10 => { t.check_task_end(k, &chk, &stamp, inc); [kfp, cfp, sfp, inc_some as u16] }
      11 => { t.check_resource_start(k, &chk, &stamp); [kfp, cfp, sfp, 0] }
      12 => { t.check_resource_end(k, &chk, &stamp, res); [kfp, cfp, sfp, res_sel as u16] }
      13 => { t.execute_start(k); [kfp, 0, 0, 0] }
      14 => { t.execute_end(k, &out); [kfp, ofp, 0, 0] }
      15 => { t.schedule_affected_by_task_start(k); [kfp, 0, 0, 0] }
      16 => { t.check_task_require_task_start(k, &chk, &stamp); [kfp, cfp, sfp, 0] }
      17 => { t.check_task_require_task_end(k, &chk, &stamp, inc); [kfp, cfp, sfp, inc_some as u16] }
      18 => { t.schedule_affected_by_task_end(k); [kfp, 0, 0, 0] }
      19 => { t.schedule_affected_by_resource_start(k); [kfp, 0, 0, 0] }
      20 => { t.check_task_read_resource_start(k, &chk, &stamp); [kfp, cfp, sfp, 0] }
      21 => { t.check_task_read_resource_end(k, &chk, &stamp, res); [kfp, cfp, sfp, res_sel as u16] }
      22 => { t.schedule_affected_by_resource_end(k); [kfp, 0, 0, 0] }
      _ => { t.schedule_task(k); [kfp, 0, 0, 0] }
    };
    assert!(t.0.n == 1 && t.1.n == 1, "C17 composite delivers exactly one call to each child");
    assert!(t.0.e[0].m == m + 1 && t.1.e[0].m == m + 1, "C17 composite delivers the same method to both children");
    assert!(t.0.e[0].a == exp, "C17 composite passes the arguments unchanged to the first child");
    assert!(t.1.e[0].a == exp, "C17 composite passes the arguments unchanged to the second child");
    assert!(t.0.e[0].seq < t.1.e[0].seq, "C17 composite calls the first child before the second");
  });
  ::std::mem::forget(key);
}

/// Each `Tracking` helper emits its start event at once and returns a closure that emits the matching end event (same
/// kind, same subject, the values passed to the closure).
//@h props=C17 tier=quick unwind=14
fn c17_tracking_start_end_pairs() {
  let x = vk::u8();
  let mode = vk::below(4);
  let chk = ModeChecker { mode };
  let stamp: u16 = vk::u8() as u16;
  let out: u8 = vk::u8();
  let inc_some = vk::bool();
  let res_sel = vk::below(3);
  let dbg: u8 = 7;
  let err = CellError;
  let inc: Option<&dyn Debug> = if inc_some { Some(&dbg as &dyn Debug) } else { None };
  let res: Result<Option<&dyn Debug>, &dyn Error> = match res_sel { 0 => Ok(None), 1 => Ok(Some(&dbg as &dyn Debug)), _ => Err(&err as &dyn Error) };
  let (task, cell) = (TA(x), Cell(x));
  let (tfp, rfp) = (0x100 | x as u16, 0x300 | x as u16);
  let (cfp, sfp, ofp) = (0x3000 | mode as u16, 0x2000 | stamp, 0x1000 | out as u16);
  let ochk = EqualsChecker;
  split(11, |m| {
    let mut rec = Rec::default();
    let (s_m, s_a, e_m, e_a): (u8, [u16; 4], u8, [u16; 4]) = {
      let mut tr = Tracking(&mut rec as &mut dyn Tracker);
      match m {
        0 => { let end = tr.build(); end(&mut tr); (1, [0; 4], 2, [0; 4]) }
        1 => { let end = tr.require(&task, &ochk); end(&mut tr, &out, &out); (3, [tfp, 0x5000, 0, 0], 4, [tfp, 0x5000, ofp, ofp]) }
        2 => { let end = tr.read(&cell, &chk); end(&mut tr, &stamp); (5, [rfp, cfp, 0, 0], 6, [rfp, cfp, sfp, 0]) }
        3 => { let end = tr.write(&cell, &chk); end(&mut tr, &stamp); (7, [rfp, cfp, 0, 0], 8, [rfp, cfp, sfp, 0]) }
        4 => { let end = tr.check_task(&task, &ochk, &out); end(&mut tr, inc); (9, [tfp, 0x5000, ofp, 0], 10, [tfp, 0x5000, ofp, inc_some as u16]) }
        5 => { let end = tr.check_resource(&cell, &chk, &stamp); end(&mut tr, res); (11, [rfp, cfp, sfp, 0], 12, [rfp, cfp, sfp, res_sel as u16]) }
        6 => { let end = tr.execute(&task); end(&mut tr, &out); (13, [tfp, 0, 0, 0], 14, [tfp, ofp, 0, 0]) }
        7 => { let end = tr.schedule_affected_by_task(&task); end(&mut tr); (15, [tfp, 0, 0, 0], 18, [tfp, 0, 0, 0]) }
        8 => { let end = tr.check_task_require_task(&task, &chk, &stamp); end(&mut tr, inc); (16, [tfp, cfp, sfp, 0], 17, [tfp, cfp, sfp, inc_some as u16]) }
        9 => { let end = tr.schedule_affected_by_resource(&cell); end(&mut tr); (19, [rfp, 0, 0, 0], 22, [rfp, 0, 0, 0]) }
        _ => { let end = tr.check_task_read_resource(&task, &chk, &stamp); end(&mut tr, res); (20, [tfp, cfp, sfp, 0], 21, [tfp, cfp, sfp, res_sel as u16]) }
      }
    };
    assert!(rec.n == 2, "C17 a Tracking helper emits exactly a start and an end event");
    assert!(rec.e[0].m == s_m && rec.e[0].a == s_a, "C17 Tracking start event has the right kind and subject");
    assert!(rec.e[1].m == e_m && rec.e[1].a == e_a, "C17 Tracking end event closes the same kind and subject with the values given");
  });
}

// ---------------------------------------------------------------------------------------------------------------------
// EventTracker: recording + query helpers against a reference stream

#[derive(Clone, Copy, PartialEq, Eq)]
struct RefEv { kind: u8, subj: u16, index: usize }
const EV_BUILD_START: u8 = 0; const EV_BUILD_END: u8 = 1; const EV_REQ_START: u8 = 2; const EV_REQ_END: u8 = 3;
const EV_READ_START: u8 = 4; const EV_READ_END: u8 = 5; const EV_WRITE_START: u8 = 6; const EV_WRITE_END: u8 = 7;
const EV_EXEC_START: u8 = 8; const EV_EXEC_END: u8 = 9;
const N_KINDS: u8 = 10;

fn feed(t: &mut EventTracker, rf: &mut [Option<RefEv>; 3], n: &mut usize, kind: u8, key: &dyn KeyObj, kfp: u16, chk: &ModeChecker, stamp: &u16, out: &u8) {
  match kind {
    EV_BUILD_START => { t.build_start(); *n = 0; *rf = [None; 3]; } // default tracker clears on build start
    EV_BUILD_END => t.build_end(),
    EV_REQ_START => t.require_start(key, chk),
    EV_REQ_END => t.require_end(key, chk, stamp, out),
    EV_READ_START => t.read_start(key, chk),
    EV_READ_END => t.read_end(key, chk, stamp),
    EV_WRITE_START => t.write_start(key, chk),
    EV_WRITE_END => t.write_end(key, chk, stamp),
    EV_EXEC_START => t.execute_start(key),
    _ => t.execute_end(key, out),
  }
  let subj = if kind <= EV_BUILD_END { 0 } else { kfp };
  rf[*n] = Some(RefEv { kind, subj, index: *n });
  *n += 1;
}
fn ev_kind(e: &Event) -> u8 {
  match e {
    Event::BuildStart => EV_BUILD_START, Event::BuildEnd => EV_BUILD_END,
    Event::RequireStart(_) => EV_REQ_START, Event::RequireEnd(_) => EV_REQ_END,
    Event::ReadStart(_) => EV_READ_START, Event::ReadEnd(_) => EV_READ_END,
    Event::WriteStart(_) => EV_WRITE_START, Event::WriteEnd(_) => EV_WRITE_END,
    Event::ExecuteStart(_) => EV_EXEC_START, Event::ExecuteEnd(_) => EV_EXEC_END,
  }
}
fn first(rf: &[Option<RefEv>; 3], n: usize, kind: u8, q: u16) -> Option<usize> {
  let mut i = 0;
  while i < n { if let Some(e) = rf[i] { if e.kind == kind && e.subj == q { return Some(e.index); } } i += 1; }
  None
}
fn count(rf: &[Option<RefEv>; 3], n: usize, kind: u8, q: Option<u16>) -> usize {
  let mut c = 0; let mut i = 0;
  while i < n { if let Some(e) = rf[i] { if e.kind == kind && (q.is_none() || q == Some(e.subj)) { c += 1; } } i += 1; }
  c
}

/// Check every Event helper and every EventTracker query against the reference stream, for query subject `q`.
fn check_helpers(t: &EventTracker, rf: &[Option<RefEv>; 3], n: usize, q: &dyn KeyObj, qfp: u16, part: u8) {
  let s = t.slice();
  assert!(s.len() == n, "C17 EventTracker stores exactly the events it was given (since the last build start)");
  let mut i = 0;
  while part & 1 != 0 && i < n {
    let e = &s[i];
    let r = rf[i].unwrap();
    assert!(ev_kind(e) == r.kind, "C17 EventTracker stores events in the order given");
    assert!(e.is_build_start() == (r.kind == EV_BUILD_START), "C17 Event::is_build_start");
    assert!(e.is_build_end() == (r.kind == EV_BUILD_END), "C17 Event::is_build_end");
    let hit = r.subj == qfp;
    assert!(e.match_require_start(q).is_some() == (r.kind == EV_REQ_START && hit), "C17 Event::match_require_start");
    assert!(e.match_require_end(q).is_some() == (r.kind == EV_REQ_END && hit), "C17 Event::match_require_end");
    assert!(e.match_read_start(q).is_some() == (r.kind == EV_READ_START && hit), "C17 Event::match_read_start");
    assert!(e.match_read_end(q).is_some() == (r.kind == EV_READ_END && hit), "C17 Event::match_read_end");
    assert!(e.match_write_start(q).is_some() == (r.kind == EV_WRITE_START && hit), "C17 Event::match_write_start");
    assert!(e.match_write_end(q).is_some() == (r.kind == EV_WRITE_END && hit), "C17 Event::match_write_end");
    assert!(e.match_execute_start(q).is_some() == (r.kind == EV_EXEC_START && hit), "C17 Event::match_execute_start");
    assert!(e.match_execute_end(q).is_some() == (r.kind == EV_EXEC_END && hit), "C17 Event::match_execute_end");
    assert!(e.is_execute() == (r.kind == EV_EXEC_START || r.kind == EV_EXEC_END), "C17 Event::is_execute");
    assert!(e.is_execute_of(q) == ((r.kind == EV_EXEC_START || r.kind == EV_EXEC_END) && hit), "C17 Event::is_execute_of");
    // stored index = position in the stream
    let idx = match e {
      Event::RequireStart(d) => Some(d.index), Event::RequireEnd(d) => Some(d.index),
      Event::ReadStart(d) => Some(d.index), Event::ReadEnd(d) => Some(d.index),
      Event::WriteStart(d) => Some(d.index), Event::WriteEnd(d) => Some(d.index),
      Event::ExecuteStart(d) => Some(d.index), Event::ExecuteEnd(d) => Some(d.index),
      _ => None,
    };
    if let Some(ix) = idx { assert!(ix == i, "C17 stored event index equals its position in the stream"); }
    i += 1;
  }
  if part & 2 == 0 { return; }
  // tracker-level queries
  let (rs, re) = (first(rf, n, EV_REQ_START, qfp), first(rf, n, EV_REQ_END, qfp));
  assert!(t.first_require(q).map(|(a, b)| (a.index, b.index)) == rs.zip(re), "C17 first_require");
  assert!(t.first_require_range(q) == rs.zip(re).map(|(a, b)| a..=b), "C17 first_require_range");
  let (rs, re) = (first(rf, n, EV_READ_START, qfp), first(rf, n, EV_READ_END, qfp));
  assert!(t.first_read(q).map(|(a, b)| (a.index, b.index)) == rs.zip(re), "C17 first_read");
  assert!(t.first_read_range(q) == rs.zip(re).map(|(a, b)| a..=b), "C17 first_read_range");
  assert!(t.first_read_end(q).map(|d| d.index) == re, "C17 first_read_end");
  assert!(t.first_read_end_index(q).copied() == re, "C17 first_read_end_index");
  let (ws, we) = (first(rf, n, EV_WRITE_START, qfp), first(rf, n, EV_WRITE_END, qfp));
  assert!(t.first_write(q).map(|(a, b)| (a.index, b.index)) == ws.zip(we), "C17 first_write");
  assert!(t.first_write_range(q) == ws.zip(we).map(|(a, b)| a..=b), "C17 first_write_range");
  assert!(t.first_write_end(q).map(|d| d.index) == we, "C17 first_write_end");
  assert!(t.first_write_end_index(q).copied() == we, "C17 first_write_end_index");
  let (xs, xe) = (first(rf, n, EV_EXEC_START, qfp), first(rf, n, EV_EXEC_END, qfp));
  assert!(t.first_execute(q).map(|(a, b)| (a.index, b.index)) == xs.zip(xe), "C17 first_execute");
  assert!(t.first_execute_range(q) == xs.zip(xe).map(|(a, b)| a..=b), "C17 first_execute_range");
  assert!(t.first_execute_end(q).map(|d| d.index) == xe, "C17 first_execute_end");
  assert!(t.first_execute_end_index(q).copied() == xe, "C17 first_execute_end_index");
  let n_exec = count(rf, n, EV_EXEC_START, None) + count(rf, n, EV_EXEC_END, None);
  assert!(t.any_execute() == (n_exec > 0), "C17 any_execute");
  let n_exec_q = count(rf, n, EV_EXEC_START, Some(qfp)) + count(rf, n, EV_EXEC_END, Some(qfp));
  assert!(t.any_execute_of(q) == (n_exec_q > 0), "C17 any_execute_of");
  assert!(t.one_execute_of(q) == (count(rf, n, EV_EXEC_START, Some(qfp)) == 1), "C17 one_execute_of");
  assert!(t.any(|e| e.is_build_end()) == (count(rf, n, EV_BUILD_END, None) > 0), "C17 any(is_build_end)");
  assert!(t.one(|e| e.is_build_start()) == (count(rf, n, EV_BUILD_START, None) == 1), "C17 one(is_build_start)");
}

/// Streams `[first, second, (third)]`: `first` is either a fixed kind or solver-chosen, `second` is solver-chosen, over
/// subjects TA(x1) / TA(x2) or TB(x2) (fields case-split over {0,1}); every helper is compared with the reference for query key TA(xq).
fn run_event_tracker(first_kind: Option<u8>, third: Option<u8>, ty2: u8, part: u8) {
  let (x1, x2, xq) = (vk::below(2), vk::below(2), vk::below(2));
  let chk = ModeChecker { mode: vk::below(4) };
  let stamp: u16 = vk::u8() as u16;
  let out: u8 = vk::u8();
  let k1 = TA(x1);
  let q = TA(xq);
  let (f1, qf) = (0x100 | x1 as u16, 0x100 | xq as u16);
  let (k2a, k2b) = (TA(x2), TB(x2));
  let (k2, f2): (&dyn KeyObj, u16) = if ty2 == 0 { (&k2a, 0x100 | x2 as u16) } else { (&k2b, 0x200 | x2 as u16) };
  vcover!(f1 == qf && f2 != qf, "query key matches the first subject only");
  let mut body = |a: u8, b: u8| {
    let mut t = EventTracker::default();
    let mut rf: [Option<RefEv>; 3] = [None; 3];
    let mut n = 0usize;
    feed(&mut t, &mut rf, &mut n, a, &k1, f1, &chk, &stamp, &out);
    feed(&mut t, &mut rf, &mut n, b, k2, f2, &chk, &stamp, &out);
    if let Some(c) = third { feed(&mut t, &mut rf, &mut n, c, &k1, f1, &chk, &stamp, &out); }
    check_helpers(&t, &rf, n, &q, qf, part);
    ::std::mem::forget(t);
  };
  match first_kind {
    Some(a) => split(N_KINDS, |b| body(a, b)),
    None => split(N_KINDS, |a| split(N_KINDS, |b| body(a, b))),
  }
}

//@h props=C17 tier=quick unwind=12 timeout=900
fn c17_event_tracker_events() { run_event_tracker(Some(EV_EXEC_START), None, 0, 1); }
//@h props=C17 tier=quick unwind=12 timeout=900
fn c17_event_tracker_queries() { run_event_tracker(Some(EV_EXEC_START), None, 0, 2); }
//@h props=C17 tier=quick unwind=12 timeout=900
fn c17_event_tracker_other_type() { run_event_tracker(Some(EV_REQ_START), None, 1, 3); }
// (not registered: three-event streams exceed the memory cap)
fn c17_event_tracker_clear_on_build_start() { run_event_tracker(Some(EV_READ_END), Some(EV_BUILD_START), 0, 3); }
// (not registered: three-event streams exceed the memory cap)
fn c17_event_tracker_first_build_start() { run_event_tracker(Some(0), Some(EV_EXEC_END), 0, 3); }
// (not registered: three-event streams exceed the memory cap)
fn c17_event_tracker_first_build_end() { run_event_tracker(Some(1), Some(EV_EXEC_END), 0, 3); }
// (not registered: three-event streams exceed the memory cap)
fn c17_event_tracker_first_req_start() { run_event_tracker(Some(2), Some(EV_EXEC_END), 0, 3); }
// (not registered: three-event streams exceed the memory cap)
fn c17_event_tracker_first_req_end() { run_event_tracker(Some(3), Some(EV_EXEC_END), 0, 3); }
// (not registered: three-event streams exceed the memory cap)
fn c17_event_tracker_first_read_start() { run_event_tracker(Some(4), Some(EV_EXEC_END), 0, 3); }
// (not registered: three-event streams exceed the memory cap)
fn c17_event_tracker_first_read_end() { run_event_tracker(Some(5), Some(EV_EXEC_END), 0, 3); }
// (not registered: three-event streams exceed the memory cap)
fn c17_event_tracker_first_write_start() { run_event_tracker(Some(6), Some(EV_EXEC_END), 0, 3); }
// (not registered: three-event streams exceed the memory cap)
fn c17_event_tracker_first_write_end() { run_event_tracker(Some(7), Some(EV_EXEC_END), 0, 3); }
// (not registered: three-event streams exceed the memory cap)
fn c17_event_tracker_first_exec_start() { run_event_tracker(Some(8), Some(EV_EXEC_END), 0, 3); }
// (not registered: three-event streams exceed the memory cap)
fn c17_event_tracker_first_exec_end() { run_event_tracker(Some(9), Some(EV_EXEC_END), 0, 3); }
