//@file crate=pie attach=src/lib.rs mod=verif_c14 caps=slot:4,lhs:4,map:4,vec:4 vec=model
//! C14 (unit level): the in-memory map resource (`MapKey`, `MapWriter`, `MapEqualsChecker`) over pie's per-resource-type
//! state (`TypeToAnyMap`). Two key types K1, K2 with identical representation and hash; a third resource type (Cell)
//! sharing the same state container.
#![allow(unused, static_mut_refs)]
use std::collections::HashMap;
use crate::verif_vk as vk;
use crate::verif_vk::vcover;
use crate::verif_sup::*;
use crate::resource::map::{GetGlobalMap, MapEqualsChecker, MapKey, MapWriter};
use crate::trait_object::collection::TypeToAnyMap;
use crate::{Resource, ResourceChecker, ResourceState};

#[derive(Clone, Copy, PartialEq, Eq, Hash, Debug)] pub struct K1(pub u8);
#[derive(Clone, Copy, PartialEq, Eq, Hash, Debug)] pub struct K2(pub u8);
impl MapKey for K1 { type Value = u8; }
impl MapKey for K2 { type Value = u8; }

/// Reference: two maps over keys {0,1}.
#[derive(Clone, Copy)] struct Ref { k1: [Option<u8>; 2], k2: [Option<u8>; 2], cell: Option<[Option<u8>; NCELL]> }

fn read1(st: &mut TypeToAnyMap, k: u8) -> Option<u8> { K1(k).read(st).unwrap().copied() }
fn read2(st: &mut TypeToAnyMap, k: u8) -> Option<u8> { K2(k).read(st).unwrap().copied() }

fn apply(st: &mut TypeToAnyMap, rf: &mut Ref, op: u8, k: u8, v: u8) {
  let ki = k as usize;
  match op {
    0 => { let key = K1(k); let mut w = key.write(st).unwrap(); let old = w.insert(v); assert!(old == rf.k1[ki], "C14 MapWriter::insert returns the previous value"); rf.k1[ki] = Some(v); }
    1 => { let key = K2(k); let mut w = key.write(st).unwrap(); let old = w.insert(v); assert!(old == rf.k2[ki], "C14 MapWriter::insert returns the previous value (second key type)"); rf.k2[ki] = Some(v); }
    2 => { let key = K1(k); let mut w = key.write(st).unwrap(); let e = w.entry().or_insert(v); let got = *e; assert!(got == rf.k1[ki].unwrap_or(v), "C14 entry().or_insert keeps an existing value"); rf.k1[ki] = Some(got); }
    3 => { let m: &mut HashMap<K1, u8> = <TypeToAnyMap as GetGlobalMap<K1>>::get_global_map_mut(st); let old = m.remove(&K1(k)); assert!(old == rf.k1[ki], "C14 direct removal through the resource state"); rf.k1[ki] = None; }
    4 => { let m: &mut HashMap<K2, u8> = <TypeToAnyMap as GetGlobalMap<K2>>::get_global_map_mut(st); m.insert(K2(k), v); rf.k2[ki] = Some(v); }
    5 => { let key = K1(k); let mut w = key.write(st).unwrap(); if let Some(x) = w.get_mut() { *x = v; rf.k1[ki] = Some(v); } else { assert!(rf.k1[ki].is_none(), "C14 get_mut is None only for an absent key"); } }
    6 => { <TypeToAnyMap as ResourceState<Cell>>::set(st, CellState { v: [Some(v), None, None] }); rf.cell = Some([Some(v), None, None]); }
    _ => { // a typed access for K1 with a NON-matching state type replaces only K1's slot
      let _ = <TypeToAnyMap as ResourceState<K1>>::get_or_set_default::<u32>(st);
      rf.k1 = [None; 2];
    }
  }
}
fn check(st: &mut TypeToAnyMap, rf: &Ref) {
  let mut k = 0u8;
  while k < 2 {
    assert!(read1(st, k) == rf.k1[k as usize], "C14 reading a key yields the value most recently stored for it");
    assert!(read2(st, k) == rf.k2[k as usize], "C14 keys of different key types never alias");
    k += 1;
  }
  let c = <TypeToAnyMap as ResourceState<Cell>>::get::<CellState>(st).map(|s| s.v);
  assert!(c == rf.cell, "C14 state stored for another resource type is neither visible through nor replaced by map accesses");
  assert!(<TypeToAnyMap as ResourceState<K1>>::get::<CellState>(st).is_none(), "C14 another resource type's state is not visible for K1");
}

/// One solver-chosen operation (kind, key, symbolic value) from a populated state; all reads compared with the reference
/// before and after.
// not registered: exceeds the memory cap (DESIGN §6)
fn c14_one_op_read_your_writes() {
  let mut st = TypeToAnyMap::default();
  let mut rf = Ref { k1: [None; 2], k2: [None; 2], cell: None };
  let (v0, v1) = (3u8, 9u8); // concrete: a symbolic value stored in the map makes later lookups' outcomes look symbolic to CBMC
  apply(&mut st, &mut rf, 0, 0, v0);   // K1(0) := v0 through a writer
  apply(&mut st, &mut rf, 4, 0, 5);    // K2(0) := 5 directly through the resource state
  apply(&mut st, &mut rf, 6, 0, 7);    // Cell state set
  check(&mut st, &rf);
  split(8, |op| { split(2, |k| {
    apply(&mut st, &mut rf, op, k, v1);
    check(&mut st, &rf);
  }); });
  ::std::mem::forget(st);
}

/// MapEqualsChecker: the three stamping routes agree, and a check is consistent iff the current value/absence equals
/// the stamped one.
//@h props=C14 tier=quick unwind=8 stubs=sort timeout=900 fieldsens=1024
fn c14_equals_checker_and_stamp_routes() {
  let mut st = TypeToAnyMap::default();
  let (v1, v2) = (vk::u8(), vk::u8());
  // state when stamped: absent or v1; state when checked: absent, same, or v2
  split(2, |s0| { split(3, |s1| {
    let key = K1(1);
    if s0 == 1 { let mut w = key.write(&mut st).unwrap(); w.insert(v1); }
    let stamped: Option<u8> = if s0 == 1 { Some(v1) } else { None };
    let a = MapEqualsChecker.stamp(&key, &mut st).unwrap();
    let b = { let mut r = key.read(&mut st).unwrap(); MapEqualsChecker.stamp_reader(&key, &mut r).unwrap() };
    let c = { let w = key.write(&mut st).unwrap(); MapEqualsChecker.stamp_writer(&key, w).unwrap() };
    assert!(a == stamped && b == stamped && c == stamped, "C14 stamp, stamp_reader and stamp_writer agree with the stored value");
    let now: Option<u8> = match s1 { 0 => { let m = <TypeToAnyMap as GetGlobalMap<K1>>::get_global_map_mut(&mut st); m.remove(&key); None }
                                     1 => stamped,
                                     _ => { let mut w = key.write(&mut st).unwrap(); w.insert(v2); Some(v2) } };
    let consistent = <MapEqualsChecker as ResourceChecker<K1>>::check(&MapEqualsChecker, &key, &mut st, &a).unwrap().is_none();
    assert!(consistent == (now == stamped), "C14 MapEqualsChecker is consistent exactly when the current value or absence equals the stamped one");
    vcover!(!consistent, "inconsistent reachable");
  }); });
  ::std::mem::forget(st);
}


/// TypeToAnyMap (pie's per-resource-type state): state stored for one resource type is never visible through, or replaced by,
/// an access for another resource type — also when both use the same state type; `set`/`get` and the default-initialising
/// accessors see the same slot; a non-matching state type is replaced by the default for that resource type only.
//@h props=C14 tier=quick unwind=8 stubs=sort timeout=900 fieldsens=1024
fn c14_typed_state_isolation() {
  let (a, b) = (vk::u8(), vk::u8());
  split(4, |k| {
    let mut m = TypeToAnyMap::default();
    match k {
      0 => { // set, then default-initialising access on the same resource type: same slot
        m.set::<Cell, u32>(a as u32);
        assert!(*m.get_or_set_default::<Cell, u32>() == a as u32, "C14 get_or_set_default sees the state stored with set");
        *m.get_or_set_default_mut::<Cell, u32>() = b as u32;
        assert!(m.get::<Cell, u32>().copied() == Some(b as u32), "C14 get sees what was stored through get_or_set_default_mut");
      }
      1 => { // two resource types sharing one state type
        *m.get_or_set_default_mut::<Cell, u32>() = a as u32;
        assert!(*m.get_or_set_default::<K1, u32>() == 0, "C14 state of one resource type is not visible through another resource type with the same state type");
        *m.get_or_set_default_mut::<K1, u32>() = b as u32;
        assert!(m.get::<Cell, u32>().copied() == Some(a as u32), "C14 state of one resource type is not replaced by an access for another");
        assert!(m.get::<K1, u32>().copied() == Some(b as u32), "C14 each resource type has its own slot");
      }
      2 => { // non-matching state type is replaced by the default, for that resource type only
        m.set::<Cell, u8>(a);
        m.set::<K1, u8>(b);
        assert!(*m.get_or_set_default::<Cell, u32>() == 0, "C14 a non-matching state is replaced by the default");
        assert!(m.get::<Cell, u8>().is_none(), "C14 the replaced state is gone");
        assert!(m.get::<K1, u8>().copied() == Some(b), "C14 other resource types keep their state");
      }
      _ => { // a map stored with set is the map the resource reads
        let mut hm: HashMap<K1, u8> = HashMap::default();
        hm.insert(K1(1), a);
        <TypeToAnyMap as ResourceState<K1>>::set(&mut m, hm);
        assert!(read1(&mut m, 1) == Some(a), "C14 a map stored through the resource state is what the resource reads");
        { let key = K1(0); let mut w = key.write(&mut m).unwrap(); w.insert(b); }
        let got = <TypeToAnyMap as ResourceState<K1>>::get::<HashMap<K1, u8>>(&m).and_then(|h| h.get(&K1(0)).copied());
        assert!(got == Some(b), "C14 writer inserts are visible through the typed state getter");
      }
    }
    ::std::mem::forget(m);
  });
}
