//@file crate=pie attach=src/lib.rs mod=verif_c12
//! C12 — built-in output checkers decide exactly their documented relation.
//! Instantiations: O = u8 (EqualsChecker, AlwaysConsistent), O = Result<u8,u8> (all five), plus the object-safe proxy
//! `OutputCheckerObj`. `o1`, `o2` range over every value of the type; no loops, so no unwinding bound.
#![allow(unused, static_mut_refs)]
use crate::verif_vk as vk;
use crate::verif_vk::vcover;
use crate::task::*;
use crate::trait_object::task::OutputCheckerObj;
use crate::trait_object::ValueObj;
use crate::OutputChecker;

fn any_res() -> Result<u8, u8> { if vk::bool() { Ok(vk::u8()) } else { Err(vk::u8()) } }

fn rel_eq(a: &Result<u8, u8>, b: &Result<u8, u8>) -> bool {
  match (a, b) { (Ok(x), Ok(y)) => x == y, (Err(x), Err(y)) => x == y, _ => false }
}
fn rel_ok(a: &Result<u8, u8>, b: &Result<u8, u8>) -> bool {
  match (a, b) { (Ok(x), Ok(y)) => x == y, (Err(_), Err(_)) => true, _ => false }
}
fn rel_err(a: &Result<u8, u8>, b: &Result<u8, u8>) -> bool {
  match (a, b) { (Err(x), Err(y)) => x == y, (Ok(_), Ok(_)) => true, _ => false }
}
fn rel_res(a: &Result<u8, u8>, b: &Result<u8, u8>) -> bool { a.is_ok() == b.is_ok() }

//@h props=C12 tier=quick
fn c12_equals_u8() {
  let (a, b) = (vk::u8(), vk::u8());
  let st = OutputChecker::<u8>::stamp(&EqualsChecker, &a);
  let consistent = OutputChecker::<u8>::check(&EqualsChecker, &b, &st).is_none();
  vcover!(consistent, "consistent case reachable");
  vcover!(!consistent, "inconsistent case reachable");
  assert!(consistent == (a == b), "C12 EqualsChecker<u8>: consistent iff equal");
  // own stamp
  let st2 = OutputChecker::<u8>::stamp(&EqualsChecker, &b);
  assert!(OutputChecker::<u8>::check(&EqualsChecker, &b, &st2).is_none(), "C12 EqualsChecker<u8>: own stamp consistent");
}

//@h props=C12 tier=quick
fn c12_always_u8() {
  let (a, b) = (vk::u8(), vk::u8());
  let st = OutputChecker::<u8>::stamp(&AlwaysConsistent, &a);
  assert!(OutputChecker::<u8>::check(&AlwaysConsistent, &b, &st).is_none(), "C12 AlwaysConsistent<u8>: always consistent");
}

//@h props=C12 tier=quick
fn c12_equals_result() {
  let (a, b) = (any_res(), any_res());
  let st = EqualsChecker.stamp(&a);
  let consistent = EqualsChecker.check(&b, &st).is_none();
  vcover!(consistent && a.is_err(), "consistent Err/Err reachable");
  vcover!(!consistent && a.is_ok() && b.is_ok(), "inconsistent Ok/Ok reachable");
  assert!(consistent == rel_eq(&a, &b), "C12 EqualsChecker<Result>: consistent iff equal");
}

//@h props=C12 tier=quick
fn c12_ok_equals_result() {
  let (a, b) = (any_res(), any_res());
  let st = OkEqualsChecker.stamp(&a);
  let consistent = OkEqualsChecker.check(&b, &st).is_none();
  vcover!(consistent && a.is_err() && a != b, "errors equivalent reachable");
  vcover!(!consistent && a.is_ok() && b.is_ok(), "different Ok payloads reachable");
  assert!(consistent == rel_ok(&a, &b), "C12 OkEqualsChecker: equal Ok payloads, all errors equivalent");
}

//@h props=C12 tier=quick
fn c12_err_equals_result() {
  let (a, b) = (any_res(), any_res());
  let st = ErrEqualsChecker.stamp(&a);
  let consistent = ErrEqualsChecker.check(&b, &st).is_none();
  vcover!(consistent && a.is_ok() && a != b, "successes equivalent reachable");
  vcover!(!consistent && a.is_err() && b.is_err(), "different Err payloads reachable");
  assert!(consistent == rel_err(&a, &b), "C12 ErrEqualsChecker: equal Err payloads, all successes equivalent");
}

//@h props=C12 tier=quick
fn c12_result_checker() {
  let (a, b) = (any_res(), any_res());
  let st = ResultChecker.stamp(&a);
  let consistent = ResultChecker.check(&b, &st).is_none();
  vcover!(consistent && a != b, "same Ok/Err-ness with different payloads reachable");
  vcover!(!consistent, "Ok vs Err reachable");
  assert!(consistent == rel_res(&a, &b), "C12 ResultChecker: same Ok/Err-ness");
}

//@h props=C12 tier=quick
fn c12_always_result() {
  let (a, b) = (any_res(), any_res());
  let st = OutputChecker::<Result<u8, u8>>::stamp(&AlwaysConsistent, &a);
  assert!(OutputChecker::<Result<u8, u8>>::check(&AlwaysConsistent, &b, &st).is_none(), "C12 AlwaysConsistent<Result>: always consistent");
}

/// The object-safe proxy must give the same verdicts as the typed checker (stamp boxed as `dyn ValueObj`).
//@h props=C12 tier=quick unwind=3
fn c12_obj_proxy_result() {
  let (a, b) = (any_res(), any_res());
  let which = vk::below(4);
  let (consistent, expect) = match which {
    0 => { let c: &dyn OutputCheckerObj<Result<u8, u8>> = &EqualsChecker; let st = c.stamp_obj(&a); let r = c.check_obj(&b, st.as_ref()).is_none(); ::std::mem::forget(st); (r, rel_eq(&a, &b)) }
    1 => { let c: &dyn OutputCheckerObj<Result<u8, u8>> = &OkEqualsChecker; let st = c.stamp_obj(&a); let r = c.check_obj(&b, st.as_ref()).is_none(); ::std::mem::forget(st); (r, rel_ok(&a, &b)) }
    2 => { let c: &dyn OutputCheckerObj<Result<u8, u8>> = &ErrEqualsChecker; let st = c.stamp_obj(&a); let r = c.check_obj(&b, st.as_ref()).is_none(); ::std::mem::forget(st); (r, rel_err(&a, &b)) }
    _ => { let c: &dyn OutputCheckerObj<Result<u8, u8>> = &ResultChecker; let st = c.stamp_obj(&a); let r = c.check_obj(&b, st.as_ref()).is_none(); ::std::mem::forget(st); (r, rel_res(&a, &b)) }
  };
  vcover!(consistent, "proxy: consistent reachable");
  vcover!(!consistent, "proxy: inconsistent reachable");
  assert!(consistent == expect, "C12 OutputCheckerObj proxy agrees with the documented relation");
}

//@h props=C12 tier=quick unwind=3
fn c12_obj_proxy_u8() {
  let (a, b) = (vk::u8(), vk::u8());
  let c: &dyn OutputCheckerObj<u8> = &EqualsChecker;
  let st = c.stamp_obj(&a);
  let r = c.check_obj(&b, st.as_ref()).is_none();
  ::std::mem::forget(st);
  assert!(r == (a == b), "C12 OutputCheckerObj<u8> proxy for EqualsChecker");
}
