//@file crate=pie attach=src/context/top_down.rs mod=verif_session caps=slot:8,lhs:4,map:8,vec:6 vec=model
//! Session level (C01, C02, C03, C04, C08, C09, C18): small scripted programs run through real sessions — a first
//! top-down build, a solver-chosen external change to the resources, then a second build (top-down, or bottom-up with the
//! change reported) — and compared with a from-scratch evaluation of the same programs on the current resource state.
//! The root require is `TopDownContext::require(root, AlwaysOk)` (what `Session::require` does, minus tracker events; see
//! pie_support.rs for why pie's `AlwaysConsistent` is avoided).
#![allow(unused, static_mut_refs)]
use super::*;
use crate::verif_vk as vk;
use crate::verif_vk::vcover;
use crate::verif_sup::*;
use crate::{Context, Pie, ResourceState, Task};
const E: Ins = Ins::End;
const INIT: [Option<u8>; NCELL] = [Some(4), Some(7), None];

fn root_require(pie: &mut Pie<()>, id: u8) -> (u8, usize) {
  let mut s = pie.new_session();
  s.0.current_executing_task = None;
  let out = { let mut ctx = TopDownContext::new(&mut s.0); ctx.require(&P(id), AlwaysOk) };
  let nerr = s.dependency_check_errors().len();
  (out, nerr)
}
fn state(pie: &mut Pie<()>) -> [Option<u8>; NCELL] { pie.resource_state_mut::<Cell>().get_mut::<CellState>().unwrap().v }
fn set_cell(pie: &mut Pie<()>, c: usize, v: Option<u8>) {
  let st = pie.resource_state_mut::<Cell>().get_mut::<CellState>().unwrap();
  let mut k = 0; while k < NCELL { if k == c { st.v[k] = v; } k += 1; }
}
/// External changes offered to the solver: (cell, new value). 0 = nothing changes.
fn change(id: u8) -> Option<(usize, Option<u8>)> {
  match id { 0 => None, 1 => Some((0, Some(9))), 2 => Some((1, Some(9))), 3 => Some((1, None)), 4 => Some((1, Some(5))), 5 => Some((2, Some(3))), _ => Some((0, Some(6))) }
}

/// One top-down build of `root` plus the oracles. Returns the output.
fn td_build(pie: &mut Pie<()>, root: u8, cells: &mut [Option<u8>; NCELL], nothing_changed: bool, exact_only: bool) -> u8 {
  exec_reset();
  let (out, _nerr) = root_require(pie, root);
  ref_visit_reset();
  let mut c = *cells;
  let exp = ref_eval(root as usize, &mut c, 4);
  assert!(out == exp, "C01 require returns what a from-scratch build of the current state returns");
  assert!(state(pie) == c, "C01 resources written by the build equal what a from-scratch build writes");
  *cells = c;
  let mut t = 0;
  while t < NTASK {
    assert!(exec_count(t) <= 1, "C02 a task is executed at most once per session");
    if exact_only && exec_count(t) == 1 { assert!(ref_visited(t), "C02 no task is executed that a from-scratch build of the current state would not execute"); }
    t += 1;
  }
  if nothing_changed { assert!(exec_total() == 0, "C02 requiring again with nothing changed executes nothing"); }
  out
}

/// History: build, change, build (top-down), build again.
fn history_td(root: u8, n_changes: u8, exact_only: bool, expect: fn(u8) -> Option<[u8; NTASK]>) {
  let mut pie = Pie::with_tracker(());
  pie.resource_state_mut::<Cell>().set(CellState { v: INIT });
  let mut cells = INIT;
  td_build(&mut pie, root, &mut cells, false, exact_only);
  split(n_changes, |ch| {
    if let Some((c, v)) = change(ch) { set_cell(&mut pie, c, v); cells[c] = v; }
    let o2 = td_build(&mut pie, root, &mut cells, ch == 0, exact_only);
    if let Some(e) = expect(ch) {
      let mut t = 0; while t < NTASK { assert!(exec_count(t) == e[t], "C02/C09 exactly the tasks with an inconsistent dependency (by their own checker) are re-executed"); t += 1; }
    }
    let o3 = td_build(&mut pie, root, &mut cells, true, exact_only);
    assert!(o3 == o2, "C02 a repeated build returns the same output");
  });
  ::std::mem::forget(pie);
}

/// History: top-down build, change, bottom-up build with the change reported, then every known task must be up to date.
fn history_bu(root: u8, others: &'static [u8], n_changes: u8) {
  let mut pie = Pie::with_tracker(());
  pie.resource_state_mut::<Cell>().set(CellState { v: INIT });
  let mut cells = INIT;
  td_build(&mut pie, root, &mut cells, false, false);
  split(n_changes, |ch| {
    exec_reset();
    {
      let mut s = pie.new_session();
      let mut b = s.create_bottom_up_build();
      if let Some((c, v)) = change(ch) { /* change applied below, before the build */ }
      drop(b);
    }
    if let Some((c, v)) = change(ch) { set_cell(&mut pie, c, v); cells[c] = v; }
    {
      let mut s = pie.new_session();
      let mut b = s.create_bottom_up_build();
      if let Some((c, _)) = change(ch) { b.schedule_tasks_affected_by(&Cell(c as u8)); }
      b.update_affected_tasks();
    }
    let mut t = 0;
    while t < NTASK { assert!(exec_count(t) <= 1, "C04 a bottom-up build executes a task at most once"); t += 1; }
    if ch == 0 { assert!(exec_total() == 0, "C04 nothing reported, nothing executed"); }
    // C03: afterwards every known task is up to date: requiring it executes nothing and returns the from-scratch output
    let mut c2 = cells;
    let _ = ref_eval(root as usize, &mut c2, 4); // the build's writes
    assert!(state(&mut pie) == c2, "C03 resources after the bottom-up build equal a from-scratch build's");
    cells = c2;
    td_build(&mut pie, root, &mut cells, true, false);
    let mut i = 0;
    while i < others.len() { td_build(&mut pie, others[i], &mut cells, true, false); i += 1; }
  });
  ::std::mem::forget(pie);
}

fn none(_: u8) -> Option<[u8; NTASK]> { None }

// ---- programs ---------------------------------------------------------------------------------------------------------
/// P0 requires P1 (Equals) then reads Cell0; P1 reads Cell1. All exact.
fn prog_chain() { unsafe { PROG = [[E; NINS]; NTASK]; PROG[0] = [Ins::Req(1, 0), Ins::Read(0, M_EXACT), E, E]; PROG[1] = [Ins::Read(1, M_EXACT), E, E, E]; } }
fn expect_chain(ch: u8) -> Option<[u8; NTASK]> { Some(match ch { 0 => [0, 0, 0, 0], 1 | 6 => [1, 0, 0, 0], 2 | 3 | 4 => [1, 1, 0, 0], _ => [0, 0, 0, 0] }) }
//@h props=C01,C02,C09 tier=quick unwind=14 stubs=sort,boxslice timeout=1200 fieldsens=1024
fn session_td_chain() { prog_chain(); history_td(0, 7, true, expect_chain); }

/// Early cut-off: P1 reads Cell1 but returns a constant; P0 requires P1 with Equals: P1 re-executes on a change, P0 does not.
fn prog_cutoff() { unsafe { PROG = [[E; NINS]; NTASK]; PROG[0] = [Ins::Req(1, 0), Ins::Read(0, M_EXACT), E, E]; PROG[1] = [Ins::Read(1, M_EXACT), Ins::Set(5), E, E]; } }
fn expect_cutoff(ch: u8) -> Option<[u8; NTASK]> { Some(match ch { 0 | 5 => [0, 0, 0, 0], 1 | 6 => [1, 0, 0, 0], _ => [0, 1, 0, 0] }) }
//@h props=C02,C09,C01 tier=quick unwind=14 stubs=sort,boxslice timeout=1200 fieldsens=1024
fn session_td_early_cutoff() { prog_cutoff(); history_td(0, 7, true, expect_cutoff); }

/// Coarse checker: P0 reads Cell1 with the parity checker: a change inside the parity class (7 -> 9, 7 -> 5) re-executes nothing.
fn prog_coarse() { unsafe { PROG = [[E; NINS]; NTASK]; PROG[0] = [Ins::Read(1, M_PARITY), Ins::Read(0, M_ALWAYS), E, E]; } }
fn expect_coarse(ch: u8) -> Option<[u8; NTASK]> { Some(match ch { 3 => [1, 0, 0, 0], _ => [0, 0, 0, 0] }) }
//@h props=C09,C02,C01 tier=quick unwind=14 stubs=sort,boxslice timeout=1200 fieldsens=1024
fn session_td_coarse_checkers() { prog_coarse(); history_td(0, 7, false, expect_coarse); }

/// Dynamic dependencies (C08): P0 reads Cell0; when the observation is even it requires P1 (reads Cell1), otherwise it reads Cell2.
fn prog_dynamic() { unsafe { PROG = [[E; NINS]; NTASK]; PROG[0] = [Ins::Read(0, M_EXACT), Ins::SkipIfOdd, Ins::Req(1, 0), Ins::Read(2, M_EXACT)]; PROG[1] = [Ins::Read(1, M_EXACT), E, E, E]; } }
//@h props=C08,C01,C02 tier=quick unwind=14 stubs=sort,boxslice timeout=1200 fieldsens=1024
fn session_td_dynamic_dependencies() { prog_dynamic(); history_td(0, 7, true, none); }

/// Generated resource: P1 reads Cell1 and writes Cell0; P0 requires P1 (accept-everything checker) and then reads Cell0.
fn prog_generated() { unsafe { PROG = [[E; NINS]; NTASK]; PROG[0] = [Ins::Req(1, 1), Ins::Read(0, M_EXACT), E, E]; PROG[1] = [Ins::Read(1, M_EXACT), Ins::Write(0, M_EXACT, 3), Ins::Set(1), E]; } }
//@h props=C01,C02,C09 tier=quick unwind=14 stubs=sort,boxslice timeout=1200 fieldsens=1024
fn session_td_generated_resource() { prog_generated(); history_td(0, 7, true, none); }

/// Diamond: P0 requires P1 and P2, both require P3 which reads Cell1.
fn prog_diamond() { unsafe { PROG = [[E; NINS]; NTASK]; PROG[0] = [Ins::Req(1, 0), Ins::Req(2, 0), E, E]; PROG[1] = [Ins::Req(3, 0), E, E, E]; PROG[2] = [Ins::Req(3, 0), Ins::Read(0, M_EXACT), E, E]; PROG[3] = [Ins::Read(1, M_EXACT), E, E, E]; } }
fn expect_diamond(ch: u8) -> Option<[u8; NTASK]> { Some(match ch { 0 | 5 => [0, 0, 0, 0], 1 | 6 => [1, 0, 1, 0], _ => [1, 1, 1, 1] }) }
//@h props=C02,C01 tier=quick unwind=14 stubs=sort,boxslice timeout=1800 fieldsens=1024
fn session_td_diamond() { prog_diamond(); history_td(0, 4, true, expect_diamond); }

// ---- bottom-up ----------------------------------------------------------------------------------------------------------
//@h props=C03,C04,C01 tier=quick unwind=14 stubs=sort,boxslice timeout=1800 fieldsens=1024
fn session_bu_chain() { prog_chain(); history_bu(0, &[1], 5); }
//@h props=C03,C04 tier=quick unwind=14 stubs=sort,boxslice timeout=1800 fieldsens=1024
fn session_bu_generated_resource() { prog_generated(); history_bu(0, &[1], 5); }
//@h props=C03,C04,C08 tier=quick unwind=14 stubs=sort,boxslice timeout=1800 fieldsens=1024
fn session_bu_dynamic_dependencies() { prog_dynamic(); history_bu(0, &[1], 7); }
