//@file crate=pie attach=src/context/top_down.rs mod=verif_session caps=slot:8,lhs:4,map:8,vec:6 vec=model
//! Session level (C01, C02, C03, C04, C08, C09, C18): small scripted programs run through real sessions — a first
//! top-down build, a solver-chosen external change to the resources, then a second build (top-down, or bottom-up with the
//! change reported) — and compared with a from-scratch evaluation of the same programs on the current resource state.
//! The root require is `TopDownContext::require(root, AlwaysOk)` (what `Session::require` does, minus tracker events; see
//! pie_support.rs for why pie's `AlwaysConsistent` is avoided).
#![allow(unused, static_mut_refs)]
use super::*;
use crate::verif_vk as vk;
use crate::verif_vk::vcover;
use crate::verif_sup::*;
use crate::{Context, Pie, ResourceState, Task};
const E: Ins = Ins::End;
const INIT: [Option<u8>; NCELL] = [Some(4), Some(7), None];

fn root_require(pie: &mut Pie<()>, id: u8) -> (u8, usize) {
  let mut s = pie.new_session();
  s.0.current_executing_task = None;
  let out = { let mut ctx = TopDownContext::new(&mut s.0); ctx.require(&P(id), AlwaysOk) };
  let nerr = s.dependency_check_errors().len();
  (out, nerr)
}
fn state(pie: &mut Pie<()>) -> [Option<u8>; NCELL] { pie.resource_state_mut::<Cell>().get_mut::<CellState>().unwrap().v }
fn set_cell(pie: &mut Pie<()>, c: usize, v: Option<u8>) {
  let st = pie.resource_state_mut::<Cell>().get_mut::<CellState>().unwrap();
  let mut k = 0; while k < NCELL { if k == c { st.v[k] = v; } k += 1; }
}
/// External changes offered to the solver: (cell, new value). 0 = nothing changes.
fn change(id: u8) -> Option<(usize, Option<u8>)> {
  match id { 0 => None, 1 => Some((0, Some(9))), 2 => Some((1, Some(9))), 3 => Some((1, None)), 4 => Some((1, Some(5))), 5 => Some((2, Some(3))), _ => Some((0, Some(6))) }
}

/// One top-down build of `root` plus the oracles. Returns the output.
fn td_build(pie: &mut Pie<()>, root: u8, cells: &mut [Option<u8>; NCELL], nothing_changed: bool, exact_only: bool) -> u8 {
  exec_reset(); log_reset();
  let (out, _nerr) = root_require(pie, root);
  ref_visit_reset();
  let mut c = *cells;
  let exp = ref_eval(root as usize, &mut c, 4);
  assert!(out == exp, "C01 require returns what a from-scratch build of the current state returns");
  assert!(state(pie) == c, "C01 resources written by the build equal what a from-scratch build writes");
  *cells = c;
  let mut t = 0;
  while t < NTASK {
    assert!(exec_count(t) <= 1, "C02 a task is executed at most once per session");
    if exact_only && exec_count(t) == 1 { assert!(ref_visited(t), "C02 no task is executed that a from-scratch build of the current state would not execute"); }
    t += 1;
  }
  if nothing_changed { assert!(exec_total() == 0, "C02 requiring again with nothing changed executes nothing"); }
  out
}

/// History: build, change, build (top-down), build again.
fn history_td(root: u8, n_changes: u8, exact_only: bool, expect: fn(u8) -> Option<[u8; NTASK]>) {
  let mut pie = Pie::with_tracker(());
  pie.resource_state_mut::<Cell>().set(CellState { v: INIT });
  let mut cells = INIT;
  td_build(&mut pie, root, &mut cells, false, exact_only);
  split(n_changes, |ch| {
    if let Some((c, v)) = change(ch) { set_cell(&mut pie, c, v); cells[c] = v; }
    let o2 = td_build(&mut pie, root, &mut cells, ch == 0, exact_only);
    if let Some(e) = expect(ch) {
      let mut t = 0; while t < NTASK { assert!(exec_count(t) == e[t], "C02/C09 exactly the tasks with an inconsistent dependency (by their own checker) are re-executed"); t += 1; }
    }
    let o3 = td_build(&mut pie, root, &mut cells, true, exact_only);
    assert!(o3 == o2, "C02 a repeated build returns the same output");
  });
  ::std::mem::forget(pie);
}

/// History: top-down build, change, bottom-up build with the change reported, then every known task must be up to date.
fn history_bu(root: u8, others: &'static [u8], n_changes: u8) {
  let mut pie = Pie::with_tracker(());
  pie.resource_state_mut::<Cell>().set(CellState { v: INIT });
  let mut cells = INIT;
  td_build(&mut pie, root, &mut cells, false, false);
  split(n_changes, |ch| {
    exec_reset();
    {
      let mut s = pie.new_session();
      let mut b = s.create_bottom_up_build();
      if let Some((c, v)) = change(ch) { /* change applied below, before the build */ }
      drop(b);
    }
    if let Some((c, v)) = change(ch) { set_cell(&mut pie, c, v); cells[c] = v; }
    {
      let mut s = pie.new_session();
      let mut b = s.create_bottom_up_build();
      if let Some((c, _)) = change(ch) { b.schedule_tasks_affected_by(&Cell(c as u8)); }
      b.update_affected_tasks();
    }
    let mut t = 0;
    while t < NTASK { assert!(exec_count(t) <= 1, "C04 a bottom-up build executes a task at most once"); t += 1; }
    if ch == 0 { assert!(exec_total() == 0, "C04 nothing reported, nothing executed"); }
    // C03: afterwards every known task is up to date: requiring it executes nothing and returns the from-scratch output
    let mut c2 = cells;
    let _ = ref_eval(root as usize, &mut c2, 4); // the build's writes
    assert!(state(&mut pie) == c2, "C03 resources after the bottom-up build equal a from-scratch build's");
    cells = c2;
    td_build(&mut pie, root, &mut cells, true, false);
    let mut i = 0;
    while i < others.len() { td_build(&mut pie, others[i], &mut cells, true, false); i += 1; }
  });
  ::std::mem::forget(pie);
}

fn none(_: u8) -> Option<[u8; NTASK]> { None }

// ---- programs ---------------------------------------------------------------------------------------------------------
/// P0 requires P1 (Equals) then reads Cell0; P1 reads Cell1. All exact.
fn prog_chain() { unsafe { PROG = [[E; NINS]; NTASK]; PROG[0] = [Ins::Req(1, 0), Ins::Read(0, M_EXACT), E, E]; PROG[1] = [Ins::Read(1, M_EXACT), E, E, E]; } }
fn expect_chain(ch: u8) -> Option<[u8; NTASK]> { Some(match ch { 0 => [0, 0, 0, 0], 1 | 6 => [1, 0, 0, 0], 2 | 3 | 4 => [1, 1, 0, 0], _ => [0, 0, 0, 0] }) }
//@h props=C01,C02:t,C09:t tier=quick unwind=14 stubs=sort,boxslice timeout=2400 fieldsens=1024
fn session_td_chain() { prog_chain(); history_td(0, 7, true, expect_chain); }

/// Early cut-off: P1 reads Cell1 but returns a constant; P0 requires P1 with Equals: P1 re-executes on a change, P0 does not.
fn prog_cutoff() { unsafe { PROG = [[E; NINS]; NTASK]; PROG[0] = [Ins::Req(1, 0), Ins::Read(0, M_EXACT), E, E]; PROG[1] = [Ins::Read(1, M_EXACT), Ins::Set(5), E, E]; } }
fn expect_cutoff(ch: u8) -> Option<[u8; NTASK]> { Some(match ch { 0 | 5 => [0, 0, 0, 0], 1 | 6 => [1, 0, 0, 0], _ => [0, 1, 0, 0] }) }
//@h props=C02,C09:t,C01:t tier=quick unwind=14 stubs=sort,boxslice timeout=2400 fieldsens=1024
fn session_td_early_cutoff() { prog_cutoff(); history_td(0, 7, true, expect_cutoff); }

/// Coarse checker: P0 reads Cell1 with the parity checker: a change inside the parity class (7 -> 9, 7 -> 5) re-executes nothing.
fn prog_coarse() { unsafe { PROG = [[E; NINS]; NTASK]; PROG[0] = [Ins::Read(1, M_PARITY), Ins::Read(0, M_ALWAYS), E, E]; } }
fn expect_coarse(ch: u8) -> Option<[u8; NTASK]> { Some(match ch { 3 => [1, 0, 0, 0], _ => [0, 0, 0, 0] }) }
//@h props=C09,C02:t,C01:t tier=quick unwind=14 stubs=sort,boxslice timeout=2400 fieldsens=1024
fn session_td_coarse_checkers() { prog_coarse(); history_td(0, 7, false, expect_coarse); }

/// Dynamic dependencies (C08): P0 reads Cell0; when the observation is even it requires P1 (reads Cell1), otherwise it reads Cell2.
fn prog_dynamic() { unsafe { PROG = [[E; NINS]; NTASK]; PROG[0] = [Ins::Read(0, M_EXACT), Ins::SkipIfOdd, Ins::Req(1, 0), Ins::Read(2, M_EXACT)]; PROG[1] = [Ins::Read(1, M_EXACT), E, E, E]; } }
//@h props=C08,C01:t,C02:t tier=quick unwind=14 stubs=sort,boxslice timeout=2400 fieldsens=1024
fn session_td_dynamic_dependencies() { prog_dynamic(); history_td(0, 7, true, none); }

/// Generated resource: P1 reads Cell1 and writes Cell0; P0 requires P1 (accept-everything checker) and then reads Cell0.
fn prog_generated() { unsafe { PROG = [[E; NINS]; NTASK]; PROG[0] = [Ins::Req(1, 1), Ins::Read(0, M_EXACT), E, E]; PROG[1] = [Ins::Read(1, M_EXACT), Ins::Write(0, M_EXACT, 3), Ins::Set(1), E]; } }
//@h props=C01,C02:t,C09:t tier=quick unwind=14 stubs=sort,boxslice timeout=2400 fieldsens=1024
fn session_td_generated_resource() { prog_generated(); history_td(0, 7, true, none); }

/// Diamond: P0 requires P1 and P2, both require P3 which reads Cell1.
fn prog_diamond() { unsafe { PROG = [[E; NINS]; NTASK]; PROG[0] = [Ins::Req(1, 0), Ins::Req(2, 0), E, E]; PROG[1] = [Ins::Req(3, 0), E, E, E]; PROG[2] = [Ins::Req(3, 0), Ins::Read(0, M_EXACT), E, E]; PROG[3] = [Ins::Read(1, M_EXACT), E, E, E]; } }
fn expect_diamond(ch: u8) -> Option<[u8; NTASK]> { Some(match ch { 0 | 5 => [0, 0, 0, 0], 1 | 6 => [1, 0, 1, 0], _ => [1, 1, 1, 1] }) }
//@h props=C02:t,C01:t tier=quick unwind=14 stubs=sort,boxslice timeout=2400 fieldsens=1024
fn session_td_diamond() { prog_diamond(); history_td(0, 4, true, expect_diamond); }

// ---- bottom-up ----------------------------------------------------------------------------------------------------------
// (not registered: bottom-up execution of a task taken from the store does not get through symbolic execution, DESIGN §2/§6)
// (not registered: even ONE task executed bottom-up, i.e. taken out of the store as a trait object, did not finish in 16 min)
#[allow(dead_code)]
fn session_bu_single_task() { unsafe { PROG = [[E; NINS]; NTASK]; PROG[0] = [Ins::Read(1, M_EXACT), E, E, E]; } history_bu(0, &[], 3); }
#[allow(dead_code)]
fn session_bu_chain() { prog_chain(); history_bu(0, &[1], 3); }
// (not registered: bottom-up execution of a task taken from the store does not get through symbolic execution, DESIGN §2/§6)
#[allow(dead_code)]
fn session_bu_generated_resource() { prog_generated(); history_bu(0, &[1], 5); }
// (not registered: bottom-up execution of a task taken from the store does not get through symbolic execution, DESIGN §2/§6)
#[allow(dead_code)]
fn session_bu_dynamic_dependencies() { prog_dynamic(); history_bu(0, &[1], 7); }

// ---- aborts reached through real executions (C05, C06, C07) -----------------------------------------------------------
fn fresh() -> Pie<()> { let mut pie = Pie::with_tracker(()); pie.resource_state_mut::<Cell>().set(CellState { v: INIT }); pie }

/// P1 generates Cell0; P0 reads Cell0 WITHOUT requiring P1. Whichever is built first (solver-chosen), also in different
/// sessions, the second build must abort with a hidden-dependency error; on the writing side before the writer is opened.
//@h props=C05 tier=quick unwind=14 stubs=sort,boxslice timeout=2400 fieldsens=1024 expect_fail="Hidden dependency; resource"
fn session_hidden_dependency_aborts_either_order() {
  unsafe { PROG = [[E; NINS]; NTASK]; PROG[0] = [Ins::Read(0, M_EXACT), E, E, E]; PROG[1] = [Ins::Set(3), Ins::Write(0, M_EXACT, 0), E, E]; PROG[2] = [Ins::Req(0, 0), Ins::Set(3), Ins::WrittenTo(0, M_EXACT, 0), E]; }
  let mut pie = fresh();
  split(3, |k| {
    match k {
      0 => { root_require(&mut pie, 1); root_require(&mut pie, 0); }                                   // writer first, then the hidden read
      1 => { root_require(&mut pie, 0); unsafe { FORBID_WRITER = true; } root_require(&mut pie, 1); }  // reader first, then the hidden write
      _ => { root_require(&mut pie, 1); unsafe { FORBID_WRITER = false; } root_require(&mut pie, 0); }
    }
    assert!(false, "MUST-ABORT: a build with a hidden dependency returned");
  });
  ::std::mem::forget(pie);
}

/// P1 and P2 both write Cell0 (P2 through create_writer + written_to): the second one, in a later session, must abort.
//@h props=C06 tier=quick unwind=14 stubs=sort,boxslice timeout=2400 fieldsens=1024 expect_fail="Overlapping write; resource"
fn session_overlapping_write_aborts() {
  unsafe { PROG = [[E; NINS]; NTASK]; PROG[1] = [Ins::Set(3), Ins::Write(0, M_EXACT, 0), E, E]; PROG[2] = [Ins::Set(4), Ins::Write(0, M_EXACT, 0), E, E]; PROG[3] = [Ins::Set(4), Ins::WrittenTo(0, M_EXACT, 0), E, E]; }
  let mut pie = fresh();
  split(2, |k| {
    root_require(&mut pie, 1);
    if k == 0 { unsafe { FORBID_WRITER = true; } root_require(&mut pie, 2); } else { root_require(&mut pie, 3); }
    assert!(false, "MUST-ABORT: a second writer of the same resource returned");
  });
  ::std::mem::forget(pie);
}

/// The same writer re-executing (its input changed) is not an overlap, and a reader that requires it stays legal.
//@h props=C06,C05:t,C01:t tier=quick unwind=14 stubs=sort,boxslice timeout=2400 fieldsens=1024
fn session_reexecuted_writer_is_no_overlap() { prog_generated(); history_td(0, 4, true, none); }

/// P0 requires P1 requires P2 requires P0 (cycle of length 3), or P3 requires itself: abort with a cyclic-dependency error,
/// no task entered twice.
//@h props=C07 tier=quick unwind=14 stubs=sort,boxslice timeout=2400 fieldsens=1024 expect_fail="Cyclic task dependency; current executing task"
fn session_cyclic_requires_abort() {
  unsafe { PROG = [[E; NINS]; NTASK]; PROG[0] = [Ins::Req(1, 0), E, E, E]; PROG[1] = [Ins::Req(2, 1), E, E, E]; PROG[2] = [Ins::Req(0, 0), E, E, E]; PROG[3] = [Ins::Req(3, 0), E, E, E]; }
  let mut pie = fresh();
  split(3, |k| {
    exec_reset();
    if k == 2 {
      // cycle P0 -> P1 -> P2 -> P0 where P1 first requires the generator P3 and reads what it wrote (a hidden-dependency
      // check, i.e. a reachability query, happens between the reservations)
      unsafe { PROG[1] = [Ins::Req(3, 1), Ins::Read(0, M_EXACT), Ins::Req(2, 1), E]; PROG[3] = [Ins::Set(3), Ins::Write(0, M_EXACT, 0), E, E]; }
    }
    if k == 1 { root_require(&mut pie, 3); } else { root_require(&mut pie, 0); }
    assert!(false, "MUST-ABORT: a cyclic require returned");
  });
  ::std::mem::forget(pie);
}

// ---- C18 through sessions -------------------------------------------------------------------------------------------------
/// P0 reads Cell1 with the failing-mode checker. Session 2 runs with the fault raised: the task is re-executed (no stale
/// reuse), the error is reported, the build returns. Session 3 runs with the fault gone: judged by the checker again.
//@h props=C18,C01 tier=quick unwind=14 stubs=sort,boxslice timeout=2400 fieldsens=1024
fn session_checker_error_then_recovery() {
  unsafe { PROG = [[E; NINS]; NTASK]; PROG[0] = [Ins::Req(1, 0), Ins::Read(0, M_EXACT), E, E]; PROG[1] = [Ins::Read(1, M_FAILING), E, E, E]; }
  let mut pie = fresh();
  let mut cells = INIT;
  td_build(&mut pie, 0, &mut cells, false, false);
  split(2, |changed| {
    if changed == 1 { set_cell(&mut pie, 1, Some(9)); cells[1] = Some(9); }
    unsafe { FAULT[1] = true; }
    exec_reset(); log_reset();
    let (o2, nerr) = root_require(&mut pie, 0);
    let mut c = cells; let exp = ref_eval(0, &mut c, 4);
    assert!(o2 == exp, "C18/C01 a failing check never leads to a stale result");
    assert!(exec_count(1) == 1, "C18 the task whose dependency check failed is re-executed");
    assert!(nerr == 1, "C18 the checker error is reported through the session's dependency-check errors");
    assert!(exec_count(0) == changed, "C02 early cut-off still applies to the requirer");
    unsafe { FAULT[1] = false; }
    td_build(&mut pie, 0, &mut cells, true, false);
  });
  ::std::mem::forget(pie);
}

// ---- C17 through sessions: the exact event stream of a small build ---------------------------------------------------------
fn root_require_rec(pie: &mut Pie<Rec>, id: u8) -> u8 {
  let mut s = pie.new_session();
  s.0.current_executing_task = None;
  let mut ctx = TopDownContext::new(&mut s.0);
  ctx.require(&P(id), AlwaysOk)
}
/// A leaf task reading Cell1: first build executes it, second build (nothing changed, or Cell1 changed) re-validates it.
/// The recorded stream must be exactly the properly nested sequence, with the values that were returned.
//@h props=C17 tier=quick unwind=14 stubs=sort,boxslice timeout=2400 fieldsens=1024
fn session_event_stream_of_leaf_builds() {
  unsafe { PROG = [[E; NINS]; NTASK]; PROG[1] = [Ins::Read(1, M_EXACT), E, E, E]; }
  let mut pie = Pie::with_tracker(Rec::default());
  pie.resource_state_mut::<Cell>().set(CellState { v: INIT });
  let o1 = root_require_rec(&mut pie, 1);
  let (tfp, rfp, cfp) = (0x100u16 * 0 + 0xFFFF, 0x301u16, 0x3000u16 | M_EXACT as u16);
  {
    let r = pie.tracker();
    let st1 = 0x2000 | abs(M_EXACT, INIT[1]);
    assert!(r.n == 6, "C17 first build: require, execute, read - each start closed by its end");
    assert!(r.e[0].m == 3 && r.e[1].m == 13 && r.e[2].m == 5 && r.e[3].m == 6 && r.e[4].m == 14 && r.e[5].m == 4, "C17 events are properly nested: require(execute(read))");
    assert!(r.e[2].a[0] == rfp && r.e[3].a[0] == rfp && r.e[3].a[1] == cfp && r.e[3].a[2] == st1, "C17 read end carries resource, checker and stamp");
    assert!(r.e[4].a[1] == 0x1000 | o1 as u16, "C17 execute end carries the output the task returned");
    assert!(r.e[5].a[3] == 0x1000 | o1 as u16 && r.e[5].a[1] == 0x5001, "C17 require end carries the value returned to the caller");
    assert!(r.e[0].a[0] == r.e[5].a[0] && r.e[1].a[0] == r.e[4].a[0], "C17 end events close a start of the same subject");
  }
  split(2, |changed| {
    *pie.tracker_mut() = Rec::default();
    if changed == 1 { pie.resource_state_mut::<Cell>().get_mut::<CellState>().unwrap().v[1] = Some(9); }
    let o2 = root_require_rec(&mut pie, 1);
    let r = pie.tracker();
    if changed == 0 {
      assert!(r.n == 4 && r.e[0].m == 3 && r.e[1].m == 11 && r.e[2].m == 12 && r.e[3].m == 4, "C17 unchanged: require(check_resource) and nothing else; no execution event");
      assert!(r.e[2].a[3] == 0 && o2 == o1, "C17 consistent verdict reported; cached value returned");
    } else {
      assert!(r.n == 8, "C17 changed: require(check_resource, execute(read))");
      assert!(r.e[0].m == 3 && r.e[1].m == 11 && r.e[2].m == 12 && r.e[3].m == 13 && r.e[4].m == 5 && r.e[5].m == 6 && r.e[6].m == 14 && r.e[7].m == 4, "C17 properly nested stream of the re-executing build");
      assert!(r.e[2].a[3] == 1, "C17 inconsistency reported in the check end event");
      assert!(r.e[6].a[1] == 0x1000 | o2 as u16 && r.e[7].a[3] == 0x1000 | o2 as u16, "C17 execute end / require end carry the new output");
    }
  });
  ::std::mem::forget(pie);
}

/// Two roots sharing a dependency, built in separate sessions: P0 and P1 both require P2 (reads Cell1). After a change, P0 is
/// rebuilt first (which re-executes P2), then P1 in a later session must still notice that P2's output changed.
//@h props=C01,C09:t,C02:t tier=quick unwind=14 stubs=sort,boxslice timeout=2400 fieldsens=1024
fn session_td_two_roots_share_a_dependency() {
  unsafe { PROG = [[E; NINS]; NTASK]; PROG[0] = [Ins::Req(2, 0), Ins::Read(0, M_EXACT), E, E]; PROG[1] = [Ins::Req(2, 0), Ins::Set(0), Ins::Req(2, 0), E]; PROG[2] = [Ins::Read(1, M_EXACT), E, E, E]; }
  let mut pie = fresh();
  let mut cells = INIT;
  td_build(&mut pie, 0, &mut cells, false, true);
  td_build(&mut pie, 1, &mut cells, false, true);
  split(3, |ch| {
    if let Some((c, v)) = change(match ch { 0 => 0, 1 => 2, _ => 3 }) { set_cell(&mut pie, c, v); cells[c] = v; }
    td_build(&mut pie, 0, &mut cells, ch == 0, true);
    let n0 = exec_count(2);
    td_build(&mut pie, 1, &mut cells, ch == 0, true);
    assert!(exec_count(2) == 0, "C02 the shared dependency was already made up to date by the first root's build");
    assert!(exec_count(1) == if ch == 0 { 0 } else { 1 }, "C01/C02 the second root notices that its dependency's output changed in an EARLIER session");
  });
  ::std::mem::forget(pie);
}

/// C08 through sessions: P0 reads Cell0 and, depending on it, either requires P1 (which reads Cell1) or not; then reads Cell2.
/// After Cell0 flips so that P0 no longer requires P1, a change to Cell1 must not re-execute anything when P0 is built; a change
/// to Cell2 (still used) must re-execute P0; flipping Cell0 back must bring the require back.
//@h props=C08,C01:t,C02:t tier=quick unwind=14 stubs=sort,boxslice timeout=2400 fieldsens=1024
fn session_td_dropped_dependency_cannot_trigger() {
  prog_dynamic();
  let mut pie = fresh();
  let mut cells = INIT;
  td_build(&mut pie, 0, &mut cells, false, true);
  assert!(exec_count(0) == 1 && exec_count(1) == 1, "harness: with Cell0 = 4 the task requires P1");
  set_cell(&mut pie, 0, Some(9)); cells[0] = Some(9);
  td_build(&mut pie, 0, &mut cells, false, true);
  assert!(exec_count(0) == 1 && exec_count(1) == 0, "C08 after the flip P0 re-executes and no longer requires P1");
  split(3, |k| {
    match k {
      0 => {
        set_cell(&mut pie, 1, Some(5)); cells[1] = Some(5);
        td_build(&mut pie, 0, &mut cells, false, true);
        assert!(exec_total() == 0, "C08 a dependency the task no longer declares (require of P1, and through it Cell1) cannot cause re-execution");
      }
      1 => {
        set_cell(&mut pie, 2, Some(3)); cells[2] = Some(3);
        td_build(&mut pie, 0, &mut cells, false, true);
        assert!(exec_count(0) == 1 && exec_count(1) == 0, "C08 a dependency declared by the latest execution (Cell2) does cause re-execution");
      }
      _ => {
        set_cell(&mut pie, 1, Some(5)); cells[1] = Some(5);
        set_cell(&mut pie, 0, Some(4)); cells[0] = Some(4);
        td_build(&mut pie, 0, &mut cells, false, true);
        assert!(exec_count(0) == 1 && exec_count(1) == 1, "C08 flipping back brings the require back; P1 is re-validated against the changed Cell1");
      }
    }
  });
  ::std::mem::forget(pie);
}

/// Longer history: build, change, build, second change, build (both changes solver-chosen out of three each).
fn history_td_two_changes(root: u8, first: [u8; 3], second: [u8; 3]) {
  let mut pie = fresh();
  let mut cells = INIT;
  td_build(&mut pie, root, &mut cells, false, true);
  split(3, |i| { split(3, |j| {
    let (c1, c2) = (first[i as usize], second[j as usize]);
    if let Some((c, v)) = change(c1) { set_cell(&mut pie, c, v); cells[c] = v; }
    td_build(&mut pie, root, &mut cells, c1 == 0, true);
    if let Some((c, v)) = change(c2) { set_cell(&mut pie, c, v); cells[c] = v; }
    let nothing = match change(c2) { None => true, Some((c, v)) => false };
    td_build(&mut pie, root, &mut cells, nothing, true);
  }); });
  ::std::mem::forget(pie);
}
//@h props=C01:t,C02:t tier=thorough unwind=14 stubs=sort,boxslice timeout=2400 fieldsens=1024
fn session_td_chain_two_changes() { prog_chain(); history_td_two_changes(0, [2, 1, 3], [0, 3, 6]); }
//@h props=C01:t,C08:t tier=thorough unwind=14 stubs=sort,boxslice timeout=2400 fieldsens=1024
fn session_td_dynamic_two_changes() { prog_dynamic(); history_td_two_changes(0, [1, 2, 5], [6, 4, 5]); }

// ---- C20: tasks that change roles between states ----------------------------------------------------------------------------
// All programs below are well-formed: in EVERY state a from-scratch build of all their tasks is free of cycles, hidden
// dependencies and overlapping writes. Which task writes Cell2 / reads Cell2 / requires which other task depends on the
// parity of Cell0. After Read(0, exact) the accumulator is Cell0 + 2, so `EndIfOdd` / `EndIfEven` select on Cell0's parity.
// INIT has Cell0 = 4 (even). Any abort of pie in the harnesses without the `kf_` prefix is a C20 violation; the `kf_`
// harnesses are the role-inversion histories in which pie (genuinely) aborts although no violation exists in the current
// state: they are recorded in known_findings.json and reported as KNOWN-FINDING, keyed by harness and panic message.

/// Writer role: P1 writes Cell2 while Cell0 is even, P2 writes it while Cell0 is odd. P0 requires P1, P2, then reads Cell2;
/// P3 does the same in the other order.
fn prog_writer_role() { unsafe {
  PROG = [[E; NINS]; NTASK];
  PROG[1] = [Ins::Read(0, M_EXACT), Ins::EndIfOdd, Ins::Write(2, M_EXACT, 1), E];
  PROG[2] = [Ins::Read(0, M_EXACT), Ins::EndIfEven, Ins::Write(2, M_EXACT, 2), E];
  PROG[0] = [Ins::Req(1, 0), Ins::Req(2, 0), Ins::Read(2, M_EXACT), E];
  PROG[3] = [Ins::Req(2, 0), Ins::Req(1, 0), Ins::Read(2, M_EXACT), E];
} }
/// The old writer (P1) is re-validated before the new writer (P2) writes: P1 re-executes, drops its write edge, then P2 writes.
//@h props=C20:t,C06:t,C08:t,C01:t tier=quick unwind=14 stubs=sort,boxslice timeout=2400 fieldsens=1024
fn session_c20_writer_role_moves() {
  prog_writer_role();
  let mut pie = fresh();
  let mut cells = INIT;
  td_build(&mut pie, 0, &mut cells, false, true);
  assert!(cells[2] == Some(7), "harness: P1 (even state) generated Cell2");
  split(2, |k| {
    let ch = if k == 0 { 1 } else { 6 };      // Cell0 := 9 (role moves to P2) / Cell0 := 6 (role stays with P1)
    if let Some((c, v)) = change(ch) { set_cell(&mut pie, c, v); cells[c] = v; }
    td_build(&mut pie, 0, &mut cells, false, true);
    assert!(exec_count(1) == 1 && exec_count(2) == 1 && exec_count(0) == 1, "C20/C08 both generators re-validated, the reader re-executed");
    if ch == 1 { vcover!(true, "c20 writer role moved"); td_build(&mut pie, 0, &mut cells, true, true); }
  });
  ::std::mem::forget(pie);
}
/// The same role move, but the generators read Cell0 with the failing-mode checker and the checks FAIL (error, not verdict) in
/// the build after the flip: a task re-executed because a dependency check failed must drop its old edges just like one
/// re-executed because of an inconsistency (written after seeded change C20-3).
//@h props=C20:t,C18:t,C08:t tier=quick unwind=14 stubs=sort,boxslice timeout=2400 fieldsens=1024
fn session_c20_writer_role_moves_after_check_error() {
  prog_writer_role();
  unsafe { PROG[1][0] = Ins::Read(0, M_FAILING); PROG[2][0] = Ins::Read(0, M_FAILING); }
  let mut pie = fresh();
  let mut cells = INIT;
  td_build(&mut pie, 0, &mut cells, false, true);
  set_cell(&mut pie, 0, Some(9)); cells[0] = Some(9);
  unsafe { FAULT[0] = true; }
  td_build(&mut pie, 0, &mut cells, false, true);
  assert!(exec_count(1) == 1 && exec_count(2) == 1 && exec_count(0) == 1, "C18/C20 both generators re-executed after their checks failed, the reader re-executed");
  unsafe { FAULT[0] = false; }
  ::std::mem::forget(pie);
}
/// Known finding (role inversion, writer): root P3 visits the NEW writer P2 first; P2 writes Cell2 while the write edge that P1
/// recorded in the earlier (even) state still exists, and pie aborts with "Overlapping write" although P1 no longer writes.
//@h props=C20 tier=quick unwind=14 stubs=sort,boxslice timeout=2400 fieldsens=1024 known=C20-KF1
fn session_c20_kf_new_writer_visited_before_old_writer() {
  prog_writer_role();
  let mut pie = fresh();
  let mut cells = INIT;
  td_build(&mut pie, 3, &mut cells, false, true);
  set_cell(&mut pie, 0, Some(9)); cells[0] = Some(9);
  td_build(&mut pie, 3, &mut cells, false, true);
  ::std::mem::forget(pie);
}

/// Require direction: P0 requires P1 while Cell0 is even; P1 requires P0 while Cell0 is odd.
fn prog_require_direction() { unsafe {
  PROG = [[E; NINS]; NTASK];
  PROG[0] = [Ins::Read(0, M_EXACT), Ins::EndIfOdd, Ins::Req(1, 0), E];
  PROG[1] = [Ins::Read(0, M_EXACT), Ins::EndIfEven, Ins::Req(0, 0), E];
} }
/// After the flip the former requirer is built first (it drops its require edge), then the new requirer: no cycle exists.
/// Flipping back, the order of the two root builds is reversed accordingly.
//@h props=C20,C07:t,C08:t,C01:t tier=quick unwind=14 stubs=sort,boxslice timeout=2400 fieldsens=1024
fn session_c20_require_direction_flips() {
  prog_require_direction();
  let mut pie = fresh();
  let mut cells = INIT;
  td_build(&mut pie, 0, &mut cells, false, true);
  set_cell(&mut pie, 0, Some(9)); cells[0] = Some(9);           // odd: P1 requires P0
  td_build(&mut pie, 0, &mut cells, false, true);
  assert!(exec_count(0) == 1 && exec_count(1) == 0, "C20/C08 P0 re-executes and no longer requires P1");
  td_build(&mut pie, 1, &mut cells, false, true);
  assert!(exec_count(1) == 1 && exec_count(0) == 0, "C20 P1 now requires the up-to-date P0");
  vcover!(true, "c20 require direction flipped");
  ::std::mem::forget(pie);
}
/// Thorough: the direction flips and flips back (the order of the two root builds is reversed accordingly).
//@h props=C20:t tier=thorough unwind=14 stubs=sort,boxslice timeout=2400 fieldsens=1024
fn session_c20_require_direction_flips_twice() {
  prog_require_direction();
  let mut pie = fresh();
  let mut cells = INIT;
  td_build(&mut pie, 0, &mut cells, false, true);
  td_build(&mut pie, 1, &mut cells, true, true);
  set_cell(&mut pie, 0, Some(9)); cells[0] = Some(9);
  td_build(&mut pie, 0, &mut cells, false, true);
  td_build(&mut pie, 1, &mut cells, false, true);
  set_cell(&mut pie, 0, Some(6)); cells[0] = Some(6);           // even again: P0 requires P1
  td_build(&mut pie, 1, &mut cells, false, true);
  td_build(&mut pie, 0, &mut cells, false, true);
  assert!(exec_count(0) == 1 && exec_count(1) == 0, "C20 P0 requires the up-to-date P1 again");
  ::std::mem::forget(pie);
}
/// Known finding (role inversion, require direction): after the flip the NEW requirer P1 is built first; its require of P0
/// meets the edge P0 -> P1 that P0 recorded in the earlier state, and pie aborts with "Cyclic task dependency" although P0
/// no longer requires P1.
//@h props=C20 tier=quick unwind=14 stubs=sort,boxslice timeout=2400 fieldsens=1024 known=C20-KF2
fn session_c20_kf_new_requirer_built_before_old_requirer() {
  prog_require_direction();
  let mut pie = fresh();
  let mut cells = INIT;
  td_build(&mut pie, 0, &mut cells, false, true);
  set_cell(&mut pie, 0, Some(9)); cells[0] = Some(9);
  td_build(&mut pie, 1, &mut cells, false, true);
  ::std::mem::forget(pie);
}

/// Reader role: P0 reads Cell2 (as a source) while Cell0 is even; P2 generates Cell2 while Cell0 is odd. P3 requires P0 then P2;
/// P1 requires them in the other order.
fn prog_reader_role() { unsafe {
  PROG = [[E; NINS]; NTASK];
  PROG[0] = [Ins::Read(0, M_EXACT), Ins::EndIfOdd, Ins::Read(2, M_EXACT), E];
  PROG[2] = [Ins::Read(0, M_EXACT), Ins::EndIfEven, Ins::Write(2, M_EXACT, 2), E];
  PROG[3] = [Ins::Req(0, 0), Ins::Req(2, 0), E, E];
  PROG[1] = [Ins::Req(2, 0), Ins::Req(0, 0), E, E];
} }
/// The former reader is re-validated first (drops its read edge), then the new generator writes: no hidden dependency exists.
//@h props=C20:t,C05:t,C08:t,C01:t tier=quick unwind=14 stubs=sort,boxslice timeout=2400 fieldsens=1024
fn session_c20_reader_stops_before_generator_starts() {
  prog_reader_role();
  let mut pie = fresh();
  let mut cells = INIT;
  td_build(&mut pie, 3, &mut cells, false, true);
  split(2, |k| {
    if k == 0 {
      set_cell(&mut pie, 0, Some(9)); cells[0] = Some(9);
      td_build(&mut pie, 3, &mut cells, false, true);
      assert!(exec_count(0) == 1 && exec_count(2) == 1, "C20 reader and generator both re-executed");
      assert!(cells[2] == Some(11 ^ 2), "harness: P2 generated Cell2 in the odd state");
      vcover!(true, "c20 reader role dropped before the generator wrote");
    } else {
      set_cell(&mut pie, 2, Some(3)); cells[2] = Some(3);           // the source changes while it is still a source
      td_build(&mut pie, 3, &mut cells, false, true);
      assert!(exec_count(0) == 1 && exec_count(2) == 0, "C02 only the reader re-executes");
    }
  });
  ::std::mem::forget(pie);
}
/// Known finding (role inversion, reader): root P1 visits the new generator P2 first; P2 writes Cell2 while the read edge that
/// P0 recorded in the earlier state still exists, and pie aborts with "Hidden dependency" although P0 no longer reads Cell2.
//@h props=C20 tier=quick unwind=14 stubs=sort,boxslice timeout=2400 fieldsens=1024 known=C20-KF3
fn session_c20_kf_generator_visited_before_former_reader() {
  prog_reader_role();
  let mut pie = fresh();
  let mut cells = INIT;
  td_build(&mut pie, 1, &mut cells, false, true);
  set_cell(&mut pie, 0, Some(9)); cells[0] = Some(9);
  td_build(&mut pie, 1, &mut cells, false, true);
  ::std::mem::forget(pie);
}

// ---- C19: sessions after an aborted build -----------------------------------------------------------------------------------
// Kani models a panic as an abort, so the state an aborted build leaves behind is CONSTRUCTED here: unwinding runs no code of
// pie (no Drop impls, no catch_unwind in pie/src or graph/src), so what remains is exactly the store content at the abort
// point: every task that was executing has been `reset_task`ed (no output), carries the dependencies it recorded so far, and
// each enclosing task ends with the *reserved* require edge to the task it was waiting for. Program: P0 = read Cell0, require
// P1, read Cell2; P1 = read Cell1. Abort points: in P0 before / after its first read; in P1 before / after its read.
// Then sessions continue: pie must stay usable (no internal-invariant panic) and return from-scratch results.
use crate::dependency::{Dependency as VDep, ResourceDependency as VRDep};
fn prog_c19() { unsafe { PROG = [[E; NINS]; NTASK]; PROG[0] = [Ins::Read(0, M_EXACT), Ins::Req(1, 0), Ins::Read(2, M_EXACT), E]; PROG[1] = [Ins::Read(1, M_EXACT), E, E, E]; } }
fn leave_aborted_state(pie: &mut Pie<()>, point: u8, cells: &[Option<u8>; NCELL]) {
  let mut s = pie.new_session();
  let st = &mut s.0.store;
  let p0 = st.get_or_create_task_node(&P(0));
  st.reset_task(&p0);
  if point >= 1 {
    let c0 = st.get_or_create_resource_node(&Cell(0));
    let _ = st.add_dependency(&p0, &c0, VRDep::new(Cell(0), ModeChecker { mode: M_EXACT }, abs(M_EXACT, cells[0])).into_read());
  }
  if point >= 2 {
    let p1 = st.get_or_create_task_node(&P(1));
    assert!(st.add_dependency(&p0, &p1, VDep::ReservedRequire).is_ok(), "harness: acyclic");
    st.reset_task(&p1);
    if point >= 3 {
      let c1 = st.get_or_create_resource_node(&Cell(1));
      let _ = st.add_dependency(&p1, &c1, VRDep::new(Cell(1), ModeChecker { mode: M_EXACT }, abs(M_EXACT, cells[1])).into_read());
    }
  }
}
/// First build ever aborts at `point`; afterwards the cells are unchanged or changed (solver-chosen), and P0 (or first P1) is built.
fn run_c19_first(points: [u8; 2]) {
  prog_c19();
  let mut pie = fresh();
  let mut cells = INIT;
  split(2, |pi| { split(3, |after| {
    let point = points[pi as usize];
    leave_aborted_state(&mut pie, point, &cells);
    match after { 1 => { set_cell(&mut pie, 1, Some(9)); cells[1] = Some(9); } 2 => { set_cell(&mut pie, 0, Some(6)); cells[0] = Some(6); } _ => {} }
    if point >= 2 && after == 2 {
      // the inner task is built on its own first
      td_build(&mut pie, 1, &mut cells, false, true);
      assert!(exec_count(1) == 1, "C19 a task whose execution was aborted is executed as new");
    }
    td_build(&mut pie, 0, &mut cells, false, true);
    assert!(exec_count(0) == 1, "C19 a task whose execution was aborted is executed as new (never reused)");
    vcover!(point == 3, "c19 abort inside the nested task");
    if after == 0 { td_build(&mut pie, 0, &mut cells, true, true); }
  }); });
  ::std::mem::forget(pie);
}
//@h props=C19 tier=quick unwind=14 stubs=sort,boxslice timeout=2400 fieldsens=1024
fn session_c19_first_build_aborted_in_nested_task() { run_c19_first([2, 3]); }
//@h props=C19 tier=quick unwind=14 stubs=sort,boxslice timeout=2400 fieldsens=1024 covers_required="^$"
fn session_c19_first_build_aborted_in_outer_task() { run_c19_first([0, 1]); }
/// A complete build, then a change, then the re-executing build aborts (inside P1, or inside P0 after it re-required P1);
/// afterwards the cause is removed or not, and P0 is built again.
//@h props=C19:t tier=quick unwind=14 stubs=sort,boxslice timeout=2400 fieldsens=1024
fn session_c19_incremental_build_aborted_then_rebuilt() {
  prog_c19();
  let mut pie = fresh();
  let mut cells = INIT;
  td_build(&mut pie, 0, &mut cells, false, true);
  split(2, |which| { split(2, |after| {
    if which == 0 {
      // Cell1 changed; P0's check reaches P1, P1 is reset and aborts after its read. P0 keeps output and dependencies.
      set_cell(&mut pie, 1, Some(9)); cells[1] = Some(9);
      let mut s = pie.new_session();
      let st = &mut s.0.store;
      let p1 = st.get_or_create_task_node(&P(1));
      st.reset_task(&p1);
      let c1 = st.get_or_create_resource_node(&Cell(1));
      let _ = st.add_dependency(&p1, &c1, VRDep::new(Cell(1), ModeChecker { mode: M_EXACT }, abs(M_EXACT, cells[1])).into_read());
    } else {
      // Cell0 changed; P0 is reset, reads Cell0, reserves the require of P1 and the build aborts while P1 is being checked.
      set_cell(&mut pie, 0, Some(6)); cells[0] = Some(6);
      leave_aborted_state(&mut pie, 1, &cells);
      let mut s = pie.new_session();
      let st = &mut s.0.store;
      let p0 = st.get_or_create_task_node(&P(0));
      let p1 = st.get_or_create_task_node(&P(1));
      assert!(st.add_dependency(&p0, &p1, VDep::ReservedRequire).is_ok(), "harness: acyclic");
    }
    if after == 1 { set_cell(&mut pie, 2, Some(3)); cells[2] = Some(3); }
    td_build(&mut pie, 0, &mut cells, false, true);
    assert!(exec_count(0) == 1, "C19 the build after the abort brings the root up to date");
    assert!(exec_count(1) == if which == 0 { 1 } else { 0 }, "C19 the aborted inner task is executed as new; a completed one is reused");
    td_build(&mut pie, 0, &mut cells, true, true);
  }); });
  ::std::mem::forget(pie);
}
