//@file crate=pie attach=src/context/top_down.rs mod=verif_probe caps=slot:6,lhs:4,map:6,vec:6 vec=model
#![allow(unused, static_mut_refs)]
use super::*;
use crate::verif_vk as vk;
use crate::verif_sup::*;
use crate::store::Store;
use crate::{Context, Pie, ResourceState, Task};
const E: Ins = Ins::End;
const CUR: [Option<u8>; NCELL] = [Some(4), Some(7), None];
fn root_require(pie: &mut Pie<()>, id: u8) -> u8 {
  let mut s = pie.new_session();
  s.0.current_executing_task = None;
  let mut ctx = TopDownContext::new(&mut s.0);
  ctx.require(&P(id), AlwaysOk)
}
//@h props=PROBE tier=quick unwind=14 stubs=sort,boxslice timeout=200 fieldsens=1024
fn w1_output_is_none() {
  let mut store = Store::default();
  let t = store.get_or_create_task_node(&P(1));
  assert!(store.get_task_output(&t).is_none());
  ::std::mem::forget(store);
}
//@h props=PROBE tier=quick unwind=14 stubs=sort,boxslice timeout=400 fieldsens=1024
fn t1_leaf_two_sessions() {
  unsafe { PROG[1] = [Ins::Read(1, 0), E, E, E]; }
  let mut pie = Pie::with_tracker(());
  pie.resource_state_mut::<Cell>().set(CellState { v: CUR });
  let o1 = root_require(&mut pie, 1);
  split(2, |ch| {
    if ch == 1 { pie.resource_state_mut::<Cell>().get_mut::<CellState>().unwrap().v[1] = Some(9); }
    exec_reset();
    let o2 = root_require(&mut pie, 1);
    assert!(exec_total() == ch as usize);
  });
  ::std::mem::forget(pie);
}
//@h props=PROBE tier=quick unwind=14 stubs=sort,boxslice timeout=400 fieldsens=1024
fn t2_nested_read_then_read() {
  unsafe { PROG[0] = [Ins::Req(1, 0), Ins::Read(0, 0), E, E]; PROG[1] = [Ins::Read(1, 0), E, E, E]; }
  let mut pie = Pie::with_tracker(());
  pie.resource_state_mut::<Cell>().set(CellState { v: CUR });
  let o1 = root_require(&mut pie, 0);
  assert!(exec_count(0) == 1 && exec_count(1) == 1);
  ::std::mem::forget(pie);
}
//@h props=PROBE tier=quick unwind=14 stubs=sort,boxslice timeout=600 fieldsens=1024
fn t3_two_tasks_two_sessions() {
  unsafe { PROG[0] = [Ins::Req(1, 0), Ins::Read(0, 0), E, E]; PROG[1] = [Ins::Read(1, 0), E, E, E]; }
  let mut pie = Pie::with_tracker(());
  pie.resource_state_mut::<Cell>().set(CellState { v: CUR });
  let o1 = root_require(&mut pie, 0);
  let mut cells = CUR;
  assert!(o1 == ref_eval(0, &mut cells, 3));
  split(3, |ch| {
    if ch == 1 { pie.resource_state_mut::<Cell>().get_mut::<CellState>().unwrap().v[1] = Some(9); cells[1] = Some(9); }
    if ch == 2 { pie.resource_state_mut::<Cell>().get_mut::<CellState>().unwrap().v[0] = Some(9); cells[0] = Some(9); }
    exec_reset();
    let o2 = root_require(&mut pie, 0);
    assert!(o2 == ref_eval(0, &mut cells, 3));
    assert!(exec_total() == match ch { 0 => 0, 1 => 2, _ => 1 });
  });
  ::std::mem::forget(pie);
}
