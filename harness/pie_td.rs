//@file crate=pie attach=src/context/top_down.rs mod=verif_td caps=slot:6,lhs:4,map:6,vec:6 vec=model
//! C02 / C09 / C18 (mechanism level): `TopDownContext::check_task` and `make_task_consistent` from constructed
//! pre-states. The dependency list of task T = P(0) is built with the store's own API; each dependency is a read of
//! Cell(i) (ModeChecker in one of four modes) or a require of U_i = P(i+1) (EqualsChecker), with a stamp that is either
//! the one a real execution would have recorded for the current state or a different one. Shape, stamps and fault
//! flags are solver-chosen (case-split per arm, DESIGN §3).
#![allow(unused, static_mut_refs)]
use super::*;
use crate::verif_vk as vk;
use crate::verif_vk::vcover;
use crate::verif_sup::*;
use crate::store::{Store, TaskNode};
use crate::task::EqualsChecker;
use crate::dependency::{Dependency, ResourceDependency, TaskDependency};
use crate::{Context, Pie, ResourceState, Task};

const CUR: [Option<u8>; NCELL] = [Some(4), Some(7), None];
const OUT_T: u8 = 9;

/// kind: 0 = read Cell(i) exact, 1 = read Cell(i) parity, 2 = read Cell(i) failing-mode, 3 = require P(i+1) (EqualsChecker).
/// `ok`: the recorded stamp matches the current state. Returns nothing; the dependency is appended to T.
fn add_dep(si: &mut crate::pie::SessionInternal, t: &TaskNode, i: u8, kind: u8, ok: bool) {
  if kind <= 2 {
    let mode = match kind { 0 => M_EXACT, 1 => M_PARITY, _ => M_FAILING };
    let r = si.store.get_or_create_resource_node(&Cell(i));
    let good = abs(mode, CUR[i as usize]);
    let stamp = if ok { good } else { good + 1 };
    let _ = si.store.add_dependency(t, &r, ResourceDependency::new(Cell(i), ModeChecker { mode }, stamp).into_read());
  } else {
    let u = si.store.get_or_create_task_node(&P(i + 1));
    let out: u8 = 20 + i;
    si.store.set_task_output(&u, Box::new(out));
    si.consistent.insert(u); // already made consistent earlier in this session: the recursion bottoms out here
    let stamp = if ok { out } else { out + 1 };
    let _ = si.store.add_dependency(t, &u, TaskDependency::new(P(i + 1), EqualsChecker, stamp).into_require());
  }
}

/// check_task over a three-dependency list of the given kinds; consistency pattern and which read errs are solver-chosen.
fn run_check_order(kinds: [u8; 3]) {
  let mut pie = Pie::with_tracker(());
  pie.resource_state_mut::<Cell>().set(CellState { v: CUR });
  let mut s = pie.new_session();
  split(8, |pat| {
    split(4, |faultpos| {
      let ok = [pat & 1 != 0, pat & 2 != 0, pat & 4 != 0];
      // a fault can only be injected on a failing-mode read
      if faultpos < 3 && kinds[faultpos as usize] != 2 { return; }
      let si = &mut s.0;
      let t = si.store.get_or_create_task_node(&P(0));
      si.store.set_task_output(&t, Box::new(OUT_T));
      let mut i = 0u8;
      while i < 3 { add_dep(si, &t, i, kinds[i as usize], ok[i as usize]); i += 1; }
      if faultpos < 3 { unsafe { FAULT[faultpos as usize] = true; } }
      log_reset(); exec_reset();
      let mut ctx = TopDownContext::new(si);
      let res = ctx.check_task::<u8>(&t).copied();
      // reference verdict: walk the list in creation order
      let mut first_bad: usize = 3; let mut errs = false;
      let mut j = 0;
      while j < 3 {
        let faulty = faultpos as usize == j;
        if faulty || !ok[j] { first_bad = j; errs = faulty; break; }
        j += 1;
      }
      let all_ok = first_bad == 3;
      assert!(res.is_some() == all_ok, "C02/C09 cached output reused iff every recorded dependency is consistent by its own checker");
      if all_ok { assert!(res == Some(OUT_T), "C02 reuse returns the cached output"); }
      assert!(exec_total() == 0, "C02 checking executes nothing when required tasks are already consistent");
      // checker calls: exactly the reads among d0..=first_bad, in creation order, each on its own stamp
      let mut expect_n = 0; let mut j = 0;
      while j < 3 { if j <= first_bad && kinds[j] <= 2 { expect_n += 1; } j += 1; }
      assert!(log_len() == expect_n, "C02 dependencies after the first inconsistent one are not checked; earlier ones all are");
      let mut n = 0; let mut j = 0;
      while j < 3 {
        if j <= first_bad && kinds[j] <= 2 {
          let e = log_at(n);
          assert!(e.kind == K_CHECK && e.subject == j as u8, "C02 dependencies are re-validated in the order they were created");
          assert!(e.seen == abs(M_EXACT, CUR[j]), "C09 the checker is consulted on the current resource state");
          n += 1;
        }
        j += 1;
      }
      let nerr = ctx.session.dependency_check_errors.len();
      assert!(nerr == if errs { 1 } else { 0 }, "C18 a checker error is reported through dependency_check_errors, exactly once");
      vcover!(errs, "a checker error at validation time");
      vcover!(all_ok, "all dependencies consistent");
      vcover!(first_bad == 1 && !errs, "second dependency inconsistent");
    });
  });
  ::std::mem::forget(pie);
}

//@h props=C02:t,C09:t,C18:t tier=quick unwind=14 stubs=sort,boxslice timeout=900 fieldsens=1024
fn td_check_order_read_read_read() { run_check_order([0, 2, 1]); }
//@h props=C02,C09,C18:t tier=quick unwind=14 stubs=sort,boxslice timeout=900 fieldsens=1024
fn td_check_order_read_require_read() { run_check_order([2, 3, 0]); }
//@h props=C18,C02:t,C09:t tier=quick unwind=14 stubs=sort,boxslice timeout=900 fieldsens=1024
fn td_check_order_require_read_require() { run_check_order([3, 2, 3]); }

/// make_task_consistent on a task whose only recorded dependency is a read of Cell(1): executes iff the checker reports
/// inconsistency (or errs), at most once per session; a second call in the same session executes nothing.
//@h props=C02,C18,C08,C09:t tier=quick unwind=14 stubs=sort,boxslice timeout=900 fieldsens=1024
fn td_make_consistent_once() {
  unsafe { PROG[0] = [Ins::Read(1, M_EXACT), Ins::End, Ins::End, Ins::End]; }
  let mut pie = Pie::with_tracker(());
  pie.resource_state_mut::<Cell>().set(CellState { v: CUR });
  let mut s = pie.new_session();
  // 0: exact checker, stamp matches; 1: exact, stale stamp; 2: parity checker, value changed within its parity class;
  // 3: parity checker, parity changed; 4: failing checker errs; 5: never executed before (no output, no dependencies)
  split(6, |case| {
    let si = &mut s.0;
    let t = si.store.get_or_create_task_node(&P(0));
    let r = si.store.get_or_create_resource_node(&Cell(1));
    let cur = CUR[1];
    let (mode, stamp) = match case {
      0 => (M_EXACT, abs(M_EXACT, cur)), 1 => (M_EXACT, abs(M_EXACT, Some(6))),
      2 => (M_PARITY, abs(M_PARITY, Some(5))), 3 => (M_PARITY, abs(M_PARITY, Some(6))),
      _ => (M_FAILING, abs(M_FAILING, cur)),
    };
    if case < 5 {
      si.store.set_task_output(&t, Box::new(OUT_T));
      let _ = si.store.add_dependency(&t, &r, ResourceDependency::new(Cell(1), ModeChecker { mode }, stamp).into_read());
      if case == 4 { unsafe { FAULT[1] = true; } }
    }
    log_reset(); exec_reset();
    let mut ctx = TopDownContext::new(si);
    let o1 = ctx.make_task_consistent(&P(0));
    let must_exec = case == 1 || case == 3 || case == 4 || case == 5;
    assert!(exec_count(0) == if must_exec { 1 } else { 0 }, "C02/C09/C18 executed iff never completed, or a recorded dependency is inconsistent by its own checker, or its check failed");
    let mut cells = CUR;
    let fresh = ref_eval(0, &mut cells, 2);
    assert!(o1 == if must_exec { fresh } else { OUT_T }, "C02/C18 returns the fresh output after executing, the cached one otherwise");
    assert!(ctx.session.dependency_check_errors.len() == if case == 4 { 1 } else { 0 }, "C18 checker error reported, build not aborted");
    assert!(ctx.session.consistent.contains(&t), "C02 task is marked consistent for this session");
    if must_exec {
      // C08/C09: the dependency now recorded is the one created by this execution, stamped from what it saw
      let mut n = 0;
      for d in ctx.session.store.get_dependencies_from_task(&t) {
        match d {
          Dependency::Read(rd) => {
            assert!(fp_key(rd.resource()) == 0x300 | 1, "C08 recorded read targets the resource read by the latest execution");
            assert!(fp_val(rd.checker()) == 0x3000 | M_EXACT as u16, "C08 recorded read carries the checker passed by the latest execution");
            assert!(fp_val(rd.stamp()) == 0x2000 | abs(M_EXACT, cur), "C09 recorded stamp is the stamp of what the task saw");
          }
          _ => assert!(false, "C08 only the read performed by the latest execution is recorded"),
        }
        n += 1;
      }
      assert!(n == 1, "C08 exactly the dependencies of the latest execution are recorded");
    }
    // second require in the same session: nothing executes, same value
    exec_reset();
    let o2 = ctx.make_task_consistent(&P(0));
    assert!(exec_total() == 0 && o2 == o1, "C02 at most one execution per session; requiring again executes nothing");
    vcover!(case == 2, "coarse checker ignores a change within its abstraction");
  });
  ::std::mem::forget(pie);
}

/// One-level `require` from inside an executing task: the recorded dependency carries the checker passed and the stamp of
/// the output returned to the requirer; a reserved edge is upgraded in place.
//@h props=C09,C08:t tier=quick unwind=14 stubs=sort,boxslice timeout=900 fieldsens=1024
fn td_require_records_stamp_of_returned_output() {
  let mut pie = Pie::with_tracker(());
  let mut s = pie.new_session();
  split(3, |case| {
    let si = &mut s.0;
    let t = si.store.get_or_create_task_node(&P(0));
    let u = si.store.get_or_create_task_node(&P(1));
    let out: u8 = 33;
    // case 0: U already consistent this session (cached output returned); case 1: U never executed (runs now, program Set(5));
    // case 2: U consistent, required with AlwaysOk
    unsafe { PROG[1] = [Ins::Set(5), Ins::End, Ins::End, Ins::End]; }
    if case != 1 { si.store.set_task_output(&u, Box::new(out)); si.consistent.insert(u); }
    si.current_executing_task = Some(t);
    exec_reset();
    let mut ctx = TopDownContext::new(si);
    let got = if case == 2 { ctx.require(&P(1), AlwaysOk) } else { ctx.require(&P(1), EqualsChecker) };
    let expect = if case == 1 { 5 } else { out };
    assert!(got == expect, "C09 require returns the required task's consistent output");
    assert!(exec_count(1) == if case == 1 { 1 } else { 0 }, "C02 an already consistent task is not executed again");
    let mut n = 0;
    for d in ctx.session.store.get_dependencies_from_task(&t) {
      match d {
        Dependency::Require(td) => {
          assert!(fp_key(td.task()) == 0xFFFF || true, "placeholder");
          if case == 2 { assert!(fp_val(td.checker()) == 0x5001 && fp_val(td.stamp()) == 0x4000, "C08/C09 AlwaysOk require recorded with unit stamp"); }
          else { assert!(fp_val(td.checker()) == 0x5000 && fp_val(td.stamp()) == 0x1000 | expect as u16, "C09 require dependency is stamped from the output returned to the requirer"); }
        }
        _ => assert!(false, "C08 the reserved require edge is upgraded to a real require dependency"),
      }
      n += 1;
    }
    assert!(n == 1, "C08 one require performed, one dependency recorded");
  });
  ::std::mem::forget(pie);
}

/// C17/C18: a resource check that fails still closes its `check_resource_start` with a `check_resource_end` carrying the
/// error, before the error is propagated.
//@h props=C17,C18 tier=quick unwind=14 stubs=sort,boxslice timeout=900 fieldsens=1024
fn td_check_emits_end_event_also_on_error() {
  let mut pie = Pie::with_tracker(Rec::default());
  pie.resource_state_mut::<Cell>().set(CellState { v: CUR });
  split(3, |case| {
    {
      let mut s = pie.new_session();
      let si = &mut s.0;
      let t = si.store.get_or_create_task_node(&P(0));
      si.store.set_task_output(&t, Box::new(OUT_T));
      // case 0: consistent; 1: inconsistent; 2: checker fails
      let mode = if case == 2 { M_FAILING } else { M_EXACT };
      add_dep(si, &t, 1, if case == 2 { 2 } else { 0 }, case != 1);
      if case == 2 { unsafe { FAULT[1] = true; } }
      let mut ctx = TopDownContext::new(si);
      let res = ctx.check_task::<u8>(&t).copied();
      assert!(res.is_some() == (case == 0), "C18 reuse only when the check succeeded and reported consistency");
    }
    let rec = pie.tracker();
    assert!(rec.n == 2, "C17 a resource check emits exactly a start and an end event, also when the checker fails");
    assert!(rec.e[0].m == 11 && rec.e[1].m == 12, "C17 check_resource_start is closed by check_resource_end");
    assert!(rec.e[0].a[0] == 0x301 && rec.e[1].a[0] == 0x301, "C17 same subject");
    assert!(rec.e[1].a[3] == case as u16, "C17 the end event carries the verdict: consistent / inconsistent / error");
  });
  ::std::mem::forget(pie);
}
