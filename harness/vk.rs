//! Nondeterminism shim shared by every harness module (copied into the scratch crates as `crate::verif_vk`).
//!
//! Under Kani every symbolic input is drawn through `vk::u8()` only, i.e. exactly one `kani::any::<u8>()` per call,
//! so that a counterexample is a flat list of bytes in call order. The native replay build (real hashbrown /
//! hashlink / slotmap, no stubs) feeds the same list back through the `VK_VALUES` environment variable.
#![allow(dead_code, unused_macros, unused_imports)]

#[cfg(kani)]
#[inline(always)]
pub fn u8() -> u8 { kani::any::<u8>() }

#[cfg(not(kani))]
pub fn u8() -> u8 {
  use std::cell::RefCell;
  use std::collections::VecDeque;
  thread_local! {
    static Q: RefCell<Option<VecDeque<u8>>> = RefCell::new(None);
  }
  Q.with(|q| {
    let mut q = q.borrow_mut();
    if q.is_none() {
      let s = ::std::env::var("VK_VALUES").unwrap_or_default();
      *q = Some(s.split(',').filter(|t| !t.trim().is_empty()).map(|t| t.trim().parse::<u8>().expect("VK_VALUES: not a byte")).collect());
    }
    match q.as_mut().unwrap().pop_front() {
      Some(v) => v,
      None => { eprintln!("VK-VALUES-EXHAUSTED"); 0 }
    }
  })
}

#[inline(always)]
pub fn bool() -> bool { u8() & 1 == 1 }

/// A value in `0..n` (n ≤ 255).
#[inline(always)]
pub fn below(n: u8) -> u8 { let x = u8(); assume(x < n); x }

#[cfg(kani)]
#[inline(always)]
pub fn assume(b: bool) { kani::assume(b) }

#[cfg(not(kani))]
pub fn assume(b: bool) { if !b { eprintln!("VK-ASSUME-VIOLATED"); ::std::process::exit(97); } }

/// Reachability / non-vacuity witness: must be satisfiable under Kani; no-op natively.
macro_rules! vcover {
  ($cond:expr, $msg:literal) => {{
    #[cfg(kani)]
    kani::cover!($cond, $msg);
    #[cfg(not(kani))]
    { let _ = &$cond; }
  }};
}
pub(crate) use vcover;

/// Insertion sort used as `-Z stubbing` replacement for `core::slice::sort::{unstable,stable}::sort` (DESIGN §1.2).
pub fn k_unstable_sort<T, F: FnMut(&T, &T) -> bool>(v: &mut [T], is_less: &mut F) {
  let n = v.len();
  let mut i = 1;
  while i < n {
    let mut j = i;
    while j > 0 && is_less(&v[j], &v[j - 1]) { v.swap(j, j - 1); j -= 1; }
    i += 1;
  }
}

/// Replacement for `Option::<T>::as_ref` (Kani 0.68 ICE on `Option<Infallible>::as_ref`, DESIGN §1.2).
pub fn k_opt_as_ref<T>(o: &Option<T>) -> Option<&T> { o.as_slice().first() }
