//@file crate=pie attach=src/lib.rs mod=verif_sup support=1
//! Shared harness vocabulary for the `pie` crate: small task / resource / checker types with symbolic `u8` fields, an
//! instrumented resource checker (`ModeChecker`) that logs every call, and a recording `Tracker`.
#![allow(unused, static_mut_refs)]
use std::any::Any;
use std::error::Error;
use std::fmt::Debug;
use std::hash::{Hash, Hasher};

use crate::tracker::Tracker;
use crate::trait_object::{KeyObj, ValueObj};
use crate::verif_vk as vk;
use crate::{Context, OutputChecker, Resource, ResourceChecker, ResourceState, Task};

// ---------------------------------------------------------------------------------------------------------------------
// Tasks without behaviour (identity experiments, store-level harnesses)

#[derive(Clone, PartialEq, Eq, Hash, Debug)] pub struct TA(pub u8);
#[derive(Clone, PartialEq, Eq, Hash, Debug)] pub struct TB(pub u8);
#[derive(Clone, PartialEq, Eq, Hash, Debug)] pub struct TT(pub (u8,));
#[derive(Clone, PartialEq, Eq, Hash, Debug)] pub struct Wrap<T>(pub T);
impl Task for TA { type Output = u8; fn execute<C: Context>(&self, _c: &mut C) -> u8 { self.0 } }
impl Task for TB { type Output = u8; fn execute<C: Context>(&self, _c: &mut C) -> u8 { self.0 } }
impl Task for TT { type Output = u8; fn execute<C: Context>(&self, _c: &mut C) -> u8 { (self.0).0 } }
impl<T: Task> Task for Wrap<T> { type Output = T::Output; fn execute<C: Context>(&self, c: &mut C) -> T::Output { self.0.execute(c) } }

// ---------------------------------------------------------------------------------------------------------------------
// In-memory resource: three cells, each absent or holding a byte. State lives in pie's per-resource-type state slot.

pub const NCELL: usize = 3;
#[derive(Clone, Copy, PartialEq, Eq, Hash, Debug)] pub struct Cell(pub u8);
#[derive(Clone, Copy, PartialEq, Eq, Hash, Debug)] pub struct Cell2(pub u8);
#[derive(Default, Debug)] pub struct CellState { pub v: [Option<u8>; NCELL] }
#[derive(Debug, Clone, Copy, PartialEq, Eq)] pub struct CellError;
impl std::fmt::Display for CellError { fn fmt(&self, f: &mut std::fmt::Formatter<'_>) -> std::fmt::Result { f.write_str("CellError") } }
impl Error for CellError {}

/// Reader handed to the task: a snapshot of the value plus a "consumed" flag that a stamping checker must leave false.
#[derive(Debug)] pub struct CellReader { pub val: Option<u8>, pub consumed: bool }
pub struct CellWriter<'r> { pub slot: &'r mut Option<u8> }

fn cell_slot<'a>(st: &'a mut CellState, i: u8) -> &'a mut Option<u8> {
  // concrete-index selection (keeps CBMC away from symbolic-offset pointers)
  let mut k = 0;
  while k + 1 < NCELL { if k == i as usize { return &mut st.v[k]; } k += 1; }
  &mut st.v[NCELL - 1]
}
impl Resource for Cell {
  type Reader<'rs> = CellReader;
  type Writer<'r> = CellWriter<'r>;
  type Error = CellError;
  fn read<'rs, RS: ResourceState<Self>>(&self, state: &'rs mut RS) -> Result<CellReader, CellError> {
    let st = state.get_or_set_default_mut::<CellState>();
    Ok(CellReader { val: *cell_slot(st, self.0), consumed: false })
  }
  fn write<'r, RS: ResourceState<Self>>(&'r self, state: &'r mut RS) -> Result<CellWriter<'r>, CellError> {
    // harnesses that expect a validation abort raise this flag: the writer must not even be opened before validation
    assert!(!unsafe { FORBID_WRITER }, "WRITER-OPENED-BEFORE-VALIDATION");
    let st = state.get_or_set_default_mut::<CellState>();
    Ok(CellWriter { slot: cell_slot(st, self.0) })
  }
}

// ---------------------------------------------------------------------------------------------------------------------
// Instrumented resource checker

pub const M_EXACT: u8 = 0;
pub const M_PARITY: u8 = 1;   // coarse: existence + parity of the value
pub const M_ALWAYS: u8 = 2;   // always consistent
pub const M_FAILING: u8 = 3;  // exact, but `check` fails while the fault flag of the resource is raised

#[derive(Clone, Copy, PartialEq, Eq, Hash, Debug)] pub struct ModeChecker { pub mode: u8 }
/// Stamp = (mode-specific abstraction of the observed value).
pub fn abs(mode: u8, v: Option<u8>) -> u16 {
  match mode {
    M_PARITY => match v { None => 0, Some(x) => 1 + (x & 1) as u16 },
    M_ALWAYS => 0,
    _ => match v { None => 0, Some(x) => 1 + x as u16 },
  }
}

pub const LOG_CAP: usize = 12;
pub const K_STAMP: u8 = 1; pub const K_STAMP_READER: u8 = 2; pub const K_STAMP_WRITER: u8 = 3; pub const K_CHECK: u8 = 4;
pub const K_EXEC: u8 = 5; pub const K_WRITE_FN: u8 = 6;
#[derive(Clone, Copy, PartialEq, Eq, Debug)] pub struct LogE { pub kind: u8, pub subject: u8, pub seen: u16, pub mode: u8 }
pub static mut LOG: [LogE; LOG_CAP] = [LogE { kind: 0, subject: 0, seen: 0, mode: 0 }; LOG_CAP];
pub static mut LOG_N: usize = 0;
/// Per-cell fault flags for `M_FAILING`.
pub static mut FAULT: [bool; NCELL] = [false; NCELL];
pub static mut FORBID_WRITER: bool = false;
pub fn log_push(kind: u8, subject: u8, seen: u16, mode: u8) {
  unsafe {
    assert!(LOG_N < LOG_CAP, "KMODEL-CAPACITY: harness log");
    let mut k = 0;
    while k < LOG_CAP { if k == LOG_N { LOG[k] = LogE { kind, subject, seen, mode }; } k += 1; }
    LOG_N += 1;
  }
}
pub fn log_reset() { unsafe { LOG_N = 0; } }
pub fn log_len() -> usize { unsafe { LOG_N } }
pub fn log_at(i: usize) -> LogE { unsafe { LOG[i] } }

impl ResourceChecker<Cell> for ModeChecker {
  type Stamp = u16;
  type Error = CellError;
  fn stamp<RS: ResourceState<Cell>>(&self, r: &Cell, state: &mut RS) -> Result<u16, CellError> {
    let v = r.read(state)?.val;
    log_push(K_STAMP, r.0, abs(M_EXACT, v), self.mode);
    Ok(abs(self.mode, v))
  }
  fn stamp_reader(&self, r: &Cell, reader: &mut CellReader) -> Result<u16, CellError> {
    log_push(K_STAMP_READER, r.0, abs(M_EXACT, reader.val), self.mode);
    Ok(abs(self.mode, reader.val))
  }
  fn stamp_writer(&self, r: &Cell, writer: CellWriter<'_>) -> Result<u16, CellError> {
    log_push(K_STAMP_WRITER, r.0, abs(M_EXACT, *writer.slot), self.mode);
    Ok(abs(self.mode, *writer.slot))
  }
  fn check<RS: ResourceState<Cell>>(&self, r: &Cell, state: &mut RS, stamp: &u16) -> Result<Option<impl Debug>, CellError> {
    let v = r.read(state)?.val;
    log_push(K_CHECK, r.0, abs(M_EXACT, v), self.mode);
    if self.mode == M_FAILING && unsafe { FAULT[(r.0 as usize) % NCELL] } { return Err(CellError); }
    let now = abs(self.mode, v);
    Ok(if now != *stamp { Some(now) } else { None })
  }
  fn wrap_error(&self, e: CellError) -> CellError { e }
}

// ---------------------------------------------------------------------------------------------------------------------
// Output checker that accepts every output (same relation as pie's `AlwaysConsistent`, whose own `check` returns
// `None::<Infallible>`: instantiating a `TaskDependency` with it makes Kani 0.68 ICE on `Option<Infallible>::as_ref`, and the
// stub that avoids the ICE destroys CBMC's constant folding of every `Option::as_ref` in the program, DESIGN §2).
#[derive(Clone, Copy, PartialEq, Eq, Hash, Debug, Default)] pub struct AlwaysOk;
impl<O> OutputChecker<O> for AlwaysOk {
  type Stamp = ();
  fn stamp(&self, _output: &O) -> () { () }
  fn check(&self, _output: &O, _stamp: &()) -> Option<impl Debug> { None::<u8> }
}

// ---------------------------------------------------------------------------------------------------------------------
// Fingerprints of trait objects (for the recording tracker)

pub fn fp_key(k: &dyn KeyObj) -> u16 {
  let a = k.as_any();
  if let Some(t) = a.downcast_ref::<TA>() { return 0x100 | t.0 as u16; }
  if let Some(t) = a.downcast_ref::<TB>() { return 0x200 | t.0 as u16; }
  if let Some(t) = a.downcast_ref::<Cell>() { return 0x300 | t.0 as u16; }
  if let Some(t) = a.downcast_ref::<Cell2>() { return 0x400 | t.0 as u16; }
  0xFFFF
}
pub fn fp_val(v: &dyn ValueObj) -> u16 {
  let a = v.as_any();
  if let Some(t) = a.downcast_ref::<u8>() { return 0x1000 | *t as u16; }
  if let Some(t) = a.downcast_ref::<u16>() { return 0x2000 | (*t & 0x3FF); }
  if let Some(t) = a.downcast_ref::<ModeChecker>() { return 0x3000 | t.mode as u16; }
  if a.downcast_ref::<()>().is_some() { return 0x4000; }
  if a.downcast_ref::<crate::task::EqualsChecker>().is_some() { return 0x5000; }
  if a.downcast_ref::<AlwaysOk>().is_some() { return 0x5001; }
  0xFFFF
}

// ---------------------------------------------------------------------------------------------------------------------
// Recording tracker: one entry per call = (method id, four argument fingerprints, global sequence number)

pub const REC_CAP: usize = 8;
pub static mut SEQ: u16 = 0;
fn next_seq() -> u16 { unsafe { SEQ += 1; SEQ } }
#[derive(Clone, Copy, PartialEq, Eq, Debug, Default)] pub struct RecE { pub m: u8, pub a: [u16; 4], pub seq: u16 }
#[derive(Debug)] pub struct Rec { pub e: [RecE; REC_CAP], pub n: usize }
impl Default for Rec { fn default() -> Self { Rec { e: [RecE { m: 0, a: [0; 4], seq: 0 }; REC_CAP], n: 0 } } }
impl Rec {
  fn push(&mut self, m: u8, a: [u16; 4]) {
    assert!(self.n < REC_CAP, "KMODEL-CAPACITY: recording tracker");
    let s = next_seq();
    let mut k = 0;
    while k < REC_CAP { if k == self.n { self.e[k] = RecE { m, a, seq: s }; } k += 1; }
    self.n += 1;
  }
}
pub fn fp_inc(i: Option<&dyn Debug>) -> u16 { if i.is_some() { 1 } else { 0 } }
pub fn fp_res(i: Result<Option<&dyn Debug>, &dyn Error>) -> u16 { match i { Ok(None) => 0, Ok(Some(_)) => 1, Err(_) => 2 } }
impl Tracker for Rec {
  fn build_start(&mut self) { self.push(1, [0; 4]) }
  fn build_end(&mut self) { self.push(2, [0; 4]) }
  fn require_start(&mut self, t: &dyn KeyObj, c: &dyn ValueObj) { self.push(3, [fp_key(t), fp_val(c), 0, 0]) }
  fn require_end(&mut self, t: &dyn KeyObj, c: &dyn ValueObj, s: &dyn ValueObj, o: &dyn ValueObj) { self.push(4, [fp_key(t), fp_val(c), fp_val(s), fp_val(o)]) }
  fn read_start(&mut self, r: &dyn KeyObj, c: &dyn ValueObj) { self.push(5, [fp_key(r), fp_val(c), 0, 0]) }
  fn read_end(&mut self, r: &dyn KeyObj, c: &dyn ValueObj, s: &dyn ValueObj) { self.push(6, [fp_key(r), fp_val(c), fp_val(s), 0]) }
  fn write_start(&mut self, r: &dyn KeyObj, c: &dyn ValueObj) { self.push(7, [fp_key(r), fp_val(c), 0, 0]) }
  fn write_end(&mut self, r: &dyn KeyObj, c: &dyn ValueObj, s: &dyn ValueObj) { self.push(8, [fp_key(r), fp_val(c), fp_val(s), 0]) }
  fn check_task_start(&mut self, t: &dyn KeyObj, c: &dyn ValueObj, s: &dyn ValueObj) { self.push(9, [fp_key(t), fp_val(c), fp_val(s), 0]) }
  fn check_task_end(&mut self, t: &dyn KeyObj, c: &dyn ValueObj, s: &dyn ValueObj, i: Option<&dyn Debug>) { self.push(10, [fp_key(t), fp_val(c), fp_val(s), fp_inc(i)]) }
  fn check_resource_start(&mut self, r: &dyn KeyObj, c: &dyn ValueObj, s: &dyn ValueObj) { self.push(11, [fp_key(r), fp_val(c), fp_val(s), 0]) }
  fn check_resource_end(&mut self, r: &dyn KeyObj, c: &dyn ValueObj, s: &dyn ValueObj, i: Result<Option<&dyn Debug>, &dyn Error>) { self.push(12, [fp_key(r), fp_val(c), fp_val(s), fp_res(i)]) }
  fn execute_start(&mut self, t: &dyn KeyObj) { self.push(13, [fp_key(t), 0, 0, 0]) }
  fn execute_end(&mut self, t: &dyn KeyObj, o: &dyn ValueObj) { self.push(14, [fp_key(t), fp_val(o), 0, 0]) }
  fn schedule_affected_by_task_start(&mut self, t: &dyn KeyObj) { self.push(15, [fp_key(t), 0, 0, 0]) }
  fn check_task_require_task_start(&mut self, t: &dyn KeyObj, c: &dyn ValueObj, s: &dyn ValueObj) { self.push(16, [fp_key(t), fp_val(c), fp_val(s), 0]) }
  fn check_task_require_task_end(&mut self, t: &dyn KeyObj, c: &dyn ValueObj, s: &dyn ValueObj, i: Option<&dyn Debug>) { self.push(17, [fp_key(t), fp_val(c), fp_val(s), fp_inc(i)]) }
  fn schedule_affected_by_task_end(&mut self, t: &dyn KeyObj) { self.push(18, [fp_key(t), 0, 0, 0]) }
  fn schedule_affected_by_resource_start(&mut self, r: &dyn KeyObj) { self.push(19, [fp_key(r), 0, 0, 0]) }
  fn check_task_read_resource_start(&mut self, t: &dyn KeyObj, c: &dyn ValueObj, s: &dyn ValueObj) { self.push(20, [fp_key(t), fp_val(c), fp_val(s), 0]) }
  fn check_task_read_resource_end(&mut self, t: &dyn KeyObj, c: &dyn ValueObj, s: &dyn ValueObj, i: Result<Option<&dyn Debug>, &dyn Error>) { self.push(21, [fp_key(t), fp_val(c), fp_val(s), fp_res(i)]) }
  fn schedule_affected_by_resource_end(&mut self, r: &dyn KeyObj) { self.push(22, [fp_key(r), 0, 0, 0]) }
  fn schedule_task(&mut self, t: &dyn KeyObj) { self.push(23, [fp_key(t), 0, 0, 0]) }
}

/// `n` arms, exactly one of which runs (chosen by the solver); the arm and everything after it run inside the call, so
/// CBMC's symbolic execution keeps the state concrete within each arm (DESIGN §3).
#[inline(always)]
pub fn split<F: FnMut(u8)>(n: u8, mut f: F) {
  let c = vk::below(n);
  let mut k = 0u8;
  while k < n { if c == k { f(k); return; } k += 1; }
}

/// Tiny deterministic hasher for Eq/Hash consistency assertions in harnesses.
pub struct XorHasher(pub u64);
impl Hasher for XorHasher {
  fn finish(&self) -> u64 { self.0 }
  fn write(&mut self, bytes: &[u8]) { let mut i = 0; while i < bytes.len() { self.0 = (self.0 ^ bytes[i] as u64).rotate_left(9); i += 1; } }
}

// ---------------------------------------------------------------------------------------------------------------------
// Scripted tasks: ONE task type `P(id)` whose behaviour is given by a harness-global program table. (One type on
// purpose: two *different* types whose hashes collide make every store lookup compare `TypeId`s, which CBMC's symbolic
// execution cannot constant-fold; equal hashes only occur for equal `P(id)` here.)

pub const NTASK: usize = 4;
pub const NINS: usize = 4;
#[derive(Clone, Copy, PartialEq, Eq, Debug)]
pub enum Ins {
  End,
  /// read Cell(c) with ModeChecker{mode}; acc := mix(acc, value)
  Read(u8, u8),
  /// require P(id) with EqualsChecker (kind 0) or the accept-everything checker AlwaysOk (kind 1); acc := mix(acc, output)
  Req(u8, u8),
  /// write Cell(c) := Some(acc ^ k) with ModeChecker{mode}
  Write(u8, u8, u8),
  /// written_to: store Cell(c) := Some(acc ^ k) through create_writer, then declare written_to with ModeChecker{mode}
  WrittenTo(u8, u8, u8),
  /// skip the next instruction when acc is odd
  SkipIfOdd,
  /// acc := k
  Set(u8),
  /// stop when acc is odd
  EndIfOdd,
  /// stop when acc is even
  EndIfEven,
}
pub static mut PROG: [[Ins; NINS]; NTASK] = [[Ins::End; NINS]; NTASK];
pub static mut EXEC_COUNT: [u8; NTASK] = [0; NTASK];
pub static mut IN_EXEC: [bool; NTASK] = [false; NTASK];
pub const XLOG_CAP: usize = 8;
pub static mut XLOG: [u8; XLOG_CAP] = [0xFF; XLOG_CAP];
pub static mut XLOG_N: usize = 0;
pub fn exec_reset() { unsafe { EXEC_COUNT = [0; NTASK]; XLOG_N = 0; } }
pub fn exec_count(id: usize) -> u8 { unsafe { EXEC_COUNT[id] } }
pub fn exec_total() -> usize { unsafe { XLOG_N } }
pub fn exec_order(i: usize) -> u8 { unsafe { XLOG[i] } }
fn mix(acc: u8, v: u8) -> u8 { acc.wrapping_mul(3).wrapping_add(v).wrapping_add(1) }
/// What a task may use of a value it read with a checker of `mode`: exactly what that checker observes (so that the
/// task's output depends only on what its checkers observe, the precondition of C01).
pub fn obs(mode: u8, v: Option<u8>) -> u8 { (abs(mode, v) & 0xFF) as u8 }
pub static mut REF_VISIT: [bool; NTASK] = [false; NTASK];
pub fn ref_visit_reset() { unsafe { REF_VISIT = [false; NTASK]; } }
pub fn ref_visited(id: usize) -> bool { unsafe { REF_VISIT[id] } }

#[derive(Clone, Copy, PartialEq, Eq, Hash, Debug)] pub struct P(pub u8);
impl Task for P {
  type Output = u8;
  fn execute<C: Context>(&self, c: &mut C) -> u8 {
    let id = (self.0 as usize) % NTASK;
    unsafe {
      // re-entrancy oracle: an undetected require cycle shows up as a task entered again while it is still executing
      let mut k = 0; while k < NTASK { if k == id { assert!(!IN_EXEC[k], "C07 a task is never entered again while it is executing (undetected cyclic require)"); IN_EXEC[k] = true; } k += 1; }
      EXEC_COUNT[id] += 1;
      assert!(XLOG_N < XLOG_CAP, "KMODEL-CAPACITY: execution log");
      let mut k = 0; while k < XLOG_CAP { if k == XLOG_N { XLOG[k] = id as u8; } k += 1; }
      XLOG_N += 1;
    }
    let prog = unsafe { PROG[id] };
    let mut acc: u8 = 0;
    let mut pc = 0;
    while pc < NINS {
      match prog[pc] {
        Ins::End => break,
        Ins::Read(cell, mode) => {
          let r = c.read(&Cell(cell), ModeChecker { mode }).expect("read");
          acc = mix(acc, obs(mode, r.val));
        }
        Ins::Req(t, kind) => {
          let o = if kind == 0 { c.require(&P(t), crate::task::EqualsChecker) } else { c.require(&P(t), AlwaysOk) };
          acc = mix(acc, o);
        }
        Ins::Write(cell, mode, k) => {
          let v = acc ^ k;
          c.write(&Cell(cell), ModeChecker { mode }, |w| { log_push(K_WRITE_FN, cell, v as u16, mode); *w.slot = Some(v); Ok(()) }).expect("write");
        }
        Ins::WrittenTo(cell, mode, k) => {
          let v = acc ^ k;
          { let cellr = Cell(cell); let w = c.create_writer(&cellr).expect("writer"); *w.slot = Some(v); }
          c.written_to(&Cell(cell), ModeChecker { mode }).expect("written_to");
        }
        Ins::SkipIfOdd => { if acc & 1 == 1 { pc += 1; } }
        Ins::Set(k) => { acc = k; }
        Ins::EndIfOdd => { if acc & 1 == 1 { break; } }
        Ins::EndIfEven => { if acc & 1 == 0 { break; } }
      }
      pc += 1;
    }
    unsafe { let mut k = 0; while k < NTASK { if k == id { IN_EXEC[k] = false; } k += 1; } }
    acc
  }
}
/// Reference semantics of the scripted programs: what a from-scratch build computes (and writes) for task `id` in cell
/// state `cells`. Returns the output; `cells` is updated by writes. `depth` bounds recursion.
pub fn ref_eval(id: usize, cells: &mut [Option<u8>; NCELL], depth: u8) -> u8 {
  let prog = unsafe { PROG[id % NTASK] };
  unsafe { REF_VISIT[id % NTASK] = true; }
  let mut acc: u8 = 0;
  let mut pc = 0;
  while pc < NINS {
    match prog[pc] {
      Ins::End => break,
      Ins::Read(cell, mode) => { acc = mix(acc, obs(mode, cells[(cell as usize) % NCELL])); }
      Ins::Req(t, _) => { let o = if depth == 0 { 0 } else { ref_eval(t as usize, cells, depth - 1) }; acc = mix(acc, o); }
      Ins::Write(cell, _, k) | Ins::WrittenTo(cell, _, k) => { cells[(cell as usize) % NCELL] = Some(acc ^ k); }
      Ins::SkipIfOdd => { if acc & 1 == 1 { pc += 1; } }
      Ins::Set(k) => { acc = k; }
      Ins::EndIfOdd => { if acc & 1 == 1 { break; } }
      Ins::EndIfEven => { if acc & 1 == 0 { break; } }
    }
    pc += 1;
  }
  acc
}

/// `-Z stubbing` replacement for `Vec::<T, A>::into_boxed_slice`: same result, but built by typed element moves into an
/// exactly-sized fresh allocation instead of `shrink_to_fit` (which goes through `realloc`/`memcpy`; after a `memcpy` CBMC
/// no longer constant-folds reads from the copied bytes, so e.g. the discriminant of a collected enum looks symbolic).
#[cfg(kani)]
pub fn k_into_boxed_slice<T, A: ::std::alloc::Allocator>(v: ::std::vec::Vec<T, A>) -> ::std::boxed::Box<[T], A> {
  let len = v.len();
  let (src, _len, _cap, alloc) = v.into_raw_parts_with_allocator();
  let layout = ::std::alloc::Layout::array::<T>(len).unwrap();
  let dst: *mut T = if layout.size() == 0 { ::std::ptr::NonNull::<T>::dangling().as_ptr() } else {
    match alloc.allocate(layout) { Ok(p) => p.as_ptr() as *mut T, Err(_) => ::std::alloc::handle_alloc_error(layout) }
  };
  let mut i = 0;
  while i < len { unsafe { dst.add(i).write(src.add(i).read()); } i += 1; }
  // the source buffer is leaked on purpose (freeing it would need the original capacity's layout; irrelevant to the claim)
  unsafe { ::std::boxed::Box::from_raw_in(::std::ptr::slice_from_raw_parts_mut(dst, len), alloc) }
}
