//@file crate=pie attach=src/context/mod.rs mod=verif_ctx caps=slot:6,lhs:4,map:6,vec:6 vec=model
//! C05 / C06 / C08 / C09 (mechanism level): one `read` / `write` / `written_to` step of `SessionExt` (the functions both
//! Context implementations delegate to) from constructed stores, and `Store::reset_task` + re-recording.
//! Tasks: X = P(0) is the currently executing task, Y = P(1), W = P(2), Z = P(3); resource R = Cell(0).
#![allow(unused, static_mut_refs)]
use super::*;
use crate::verif_vk as vk;
use crate::verif_vk::vcover;
use crate::verif_sup::*;
use crate::store::{Store, TaskNode, ResourceNode};
use crate::task::EqualsChecker;
use crate::dependency::{Dependency, ResourceDependency, TaskDependency};
use crate::{Context, Pie, ResourceState, Task};

const CUR: [Option<u8>; NCELL] = [Some(4), Some(7), None];
fn req(si: &mut SessionInternal, a: &TaskNode, b: &TaskNode, bid: u8, reserved: bool) {
  let d = if reserved { Dependency::ReservedRequire } else { TaskDependency::new(P(bid), AlwaysOk, ()).into_require() };
  assert!(si.store.add_dependency(a, b, d).is_ok(), "harness: acyclic require");
}
fn rdep(cell: u8, mode: u8) -> ResourceDependency<Cell, ModeChecker, u16> { ResourceDependency::new(Cell(cell), ModeChecker { mode }, abs(mode, CUR[cell as usize])) }
struct Nodes { x: TaskNode, y: TaskNode, w: TaskNode, z: TaskNode, r: ResourceNode }
fn nodes(si: &mut SessionInternal) -> Nodes {
  Nodes { x: si.store.get_or_create_task_node(&P(0)), y: si.store.get_or_create_task_node(&P(1)), w: si.store.get_or_create_task_node(&P(2)),
          z: si.store.get_or_create_task_node(&P(3)), r: si.store.get_or_create_resource_node(&Cell(0)) }
}
/// W is the recorded writer of R; Z optionally reads R (recorded before or after W's write edge).
fn writer_recorded(si: &mut SessionInternal, n: &Nodes, zpos: u8) {
  if zpos == 1 { req(si, &n.z, &n.w, 2, false); let _ = si.store.add_dependency(&n.z, &n.r, rdep(0, M_EXACT).into_read()); }
  let _ = si.store.add_dependency(&n.w, &n.r, rdep(0, M_EXACT).into_write());
  if zpos == 2 { req(si, &n.z, &n.w, 2, false); let _ = si.store.add_dependency(&n.z, &n.r, rdep(0, M_EXACT).into_read()); }
}
/// Require structure between X, Y, W: 0 none; 1 X->W; 2 X->Y only; 3 X->Y->W; 4 Y->W only; 5 X->W reserved (still executing); 6 X->Y->W with X->Y reserved
fn requires(si: &mut SessionInternal, n: &Nodes, shape: u8) {
  match shape {
    1 => req(si, &n.x, &n.w, 2, false),
    2 => req(si, &n.x, &n.y, 1, false),
    3 => { req(si, &n.y, &n.w, 2, false); req(si, &n.x, &n.y, 1, false); }
    4 => req(si, &n.y, &n.w, 2, false),
    5 => req(si, &n.x, &n.w, 2, true),
    6 => { req(si, &n.y, &n.w, 2, false); req(si, &n.x, &n.y, 1, true); }
    _ => {}
  }
}
fn reaches_w(shape: u8) -> bool { shape == 1 || shape == 3 || shape == 5 || shape == 6 }
const SHAPES_NO_PATH: [u8; 3] = [0, 2, 4];
const SHAPES_PATH: [u8; 4] = [1, 3, 5, 6];

// ---- C05, reading side ------------------------------------------------------------------------------------------------

/// X reads R although it does not (transitively) require R's recorded writer W: the build must abort.
//@h props=C05 tier=quick unwind=14 stubs=sort,boxslice timeout=900 fieldsens=1024 expect_fail="Hidden dependency; resource"
fn ctx_read_without_path_to_writer_aborts() {
  let mut pie = Pie::with_tracker(());
  pie.resource_state_mut::<Cell>().set(CellState { v: CUR });
  let mut s = pie.new_session();
  split(3, |k| { split(3, |zpos| {
    let si = &mut s.0;
    let n = nodes(si);
    writer_recorded(si, &n, zpos);
    requires(si, &n, SHAPES_NO_PATH[k as usize]);
    si.current_executing_task = Some(n.x);
    let r = si.read(&Cell(0), ModeChecker { mode: M_EXACT });
    assert!(false, "MUST-ABORT: a hidden-dependency read returned");
  }); });
  ::std::mem::forget(pie);
}

/// X reads R and does reach W: no abort; the read is recorded with the checker passed and a stamp taken from the very
/// reader handed back (C09), which is returned in a fresh state.
//@h props=C05,C09,C08:t tier=quick unwind=14 stubs=sort,boxslice timeout=900 fieldsens=1024
fn ctx_read_with_path_to_writer_is_recorded() {
  let mut pie = Pie::with_tracker(());
  pie.resource_state_mut::<Cell>().set(CellState { v: CUR });
  let mut s = pie.new_session();
  split(4, |k| { split(2, |zp| {
    let zpos = zp * 2; // no other reader, or one recorded after the writer's edge
    let m = zp;
    let si = &mut s.0;
    let n = nodes(si);
    writer_recorded(si, &n, zpos);
    requires(si, &n, SHAPES_PATH[k as usize]);
    si.current_executing_task = Some(n.x);
    let mode = if m == 0 { M_EXACT } else { M_PARITY };
    log_reset();
    let reader = si.read(&Cell(0), ModeChecker { mode }).expect("read");
    assert!(reader.val == CUR[0] && !reader.consumed, "C09 the task receives the reader in a fresh state with the full value");
    assert!(log_len() == 1 && log_at(0).kind == K_STAMP_READER && log_at(0).seen == abs(M_EXACT, CUR[0]), "C09 the stamp is taken once, from the reader handed to the task");
    let mut found = 0;
    for d in si.store.get_dependencies_from_task(&n.x) {
      if let Dependency::Read(rd) = d {
        assert!(fp_key(rd.resource()) == 0x300 && fp_val(rd.checker()) == 0x3000 | mode as u16 && fp_val(rd.stamp()) == 0x2000 | abs(mode, CUR[0]), "C08/C09 read recorded with its checker and the stamp of what was seen");
        found += 1;
      }
    }
    assert!(found == 1, "C08 the read is recorded exactly once");
    assert!(si.store.contains_transitive_task_dependency(&n.x, &n.w), "C05 a reader that returns reaches the generator");
  }); });
  ::std::mem::forget(pie);
}

// ---- C05, writing side; C06 -----------------------------------------------------------------------------------------

/// Readers of R recorded earlier: `who` selects which of Y, Z read R; `good` which of them (transitively) require X.
fn readers_recorded(si: &mut SessionInternal, n: &Nodes, order_zy: bool, y_good: bool, z_reads: bool, z_good: bool) {
  if y_good { req(si, &n.y, &n.x, 0, false); }
  if z_reads && z_good { req(si, &n.z, &n.y, 1, false); if !y_good { req(si, &n.y, &n.x, 0, false); } }
  if order_zy && z_reads { let _ = si.store.add_dependency(&n.z, &n.r, rdep(0, M_EXACT).into_read()); }
  let _ = si.store.add_dependency(&n.y, &n.r, rdep(0, M_PARITY).into_read());
  if !order_zy && z_reads { let _ = si.store.add_dependency(&n.z, &n.r, rdep(0, M_EXACT).into_read()); }
}
fn do_write(si: &mut SessionInternal, via_written_to: bool, newv: Option<u8>) {
  if via_written_to {
    let r = si.written_to(&Cell(0), ModeChecker { mode: M_EXACT });
  } else {
    let r = si.write(&Cell(0), ModeChecker { mode: M_EXACT }, |w| { log_push(K_WRITE_FN, 0, 0, 0); *w.slot = newv; Ok(()) });
  }
}

/// X writes R (through `write` or `written_to`) although some recorded reader does not require X: abort, before the writer
/// is opened and before write_fn runs.
//@h props=C05 tier=quick unwind=14 stubs=sort,boxslice timeout=900 fieldsens=1024 expect_fail="Hidden dependency; resource"
fn ctx_write_with_unrelated_reader_aborts() {
  let mut pie = Pie::with_tracker(());
  pie.resource_state_mut::<Cell>().set(CellState { v: CUR });
  let mut s = pie.new_session();
  // 0: only Y reads, unrelated; 1: Z (good) recorded first, then Y (bad); 2: Y (bad) first, then Z (good); 3: Y good, Z bad, Z first; 4: Y good, Z bad, Y first
  split(5, |k| { split(2, |wt| {
    let si = &mut s.0;
    let n = nodes(si);
    match k {
      0 => readers_recorded(si, &n, false, false, false, false),
      1 => { req(si, &n.z, &n.x, 0, false); readers_recorded(si, &n, true, false, true, false); }
      2 => { req(si, &n.z, &n.x, 0, false); readers_recorded(si, &n, false, false, true, false); }
      3 => readers_recorded(si, &n, true, true, true, false),
      _ => readers_recorded(si, &n, false, true, true, false),
    }
    si.current_executing_task = Some(n.x);
    unsafe { FORBID_WRITER = true; }
    log_reset();
    do_write(si, wt == 1, Some(1));
    assert!(false, "MUST-ABORT: a write hidden from a recorded reader returned");
  }); });
  ::std::mem::forget(pie);
}

/// X writes R whose recorded writer is another task W: abort with an overlapping-write error before anything is modified.
/// Includes the case where X already has a (legal) read edge to R.
//@h props=C06 tier=quick unwind=14 stubs=sort,boxslice timeout=900 fieldsens=1024 expect_fail="Overlapping write; resource"
fn ctx_write_to_resource_of_other_writer_aborts() {
  let mut pie = Pie::with_tracker(());
  pie.resource_state_mut::<Cell>().set(CellState { v: CUR });
  let mut s = pie.new_session();
  // 0: W writer only; 1: Z reads before; 2: Z reads after; 3: X itself requires W and has read R already
  split(4, |k| { split(2, |wt| {
    let si = &mut s.0;
    let n = nodes(si);
    writer_recorded(si, &n, if k <= 2 { k } else { 0 });
    if k == 3 { req(si, &n.x, &n.w, 2, false); let _ = si.store.add_dependency(&n.x, &n.r, rdep(0, M_EXACT).into_read()); }
    si.current_executing_task = Some(n.x);
    unsafe { FORBID_WRITER = true; }
    do_write(si, wt == 1, Some(1));
    assert!(false, "MUST-ABORT: an overlapping write returned");
  }); });
  ::std::mem::forget(pie);
}

/// Allowed writes: no recorded writer and every recorded reader requires X; or X is the recorded writer re-executing after
/// reset_task. No abort; exactly one write edge; stamp taken after write_fn (C09).
//@h props=C06,C09,C05:t,C08:t tier=quick unwind=14 stubs=sort,boxslice timeout=900 fieldsens=1024
fn ctx_allowed_writes_are_recorded_once() {
  let mut pie = Pie::with_tracker(());
  pie.resource_state_mut::<Cell>().set(CellState { v: CUR });
  let mut s = pie.new_session();
  // 0: fresh resource; 1: Y (requires X) reads R; 2: X was the writer, re-executes after reset
  split(3, |k| { split(2, |wt| { split(3, |nv| {
    let si = &mut s.0;
    let n = nodes(si);
    if k == 1 { readers_recorded(si, &n, false, true, false, false); }
    if k == 2 { let _ = si.store.add_dependency(&n.x, &n.r, rdep(0, M_EXACT).into_write()); si.store.set_task_output(&n.x, Box::new(1u8)); si.store.reset_task(&n.x); }
    si.current_executing_task = Some(n.x);
    let newv = match nv { 0 => Some(5u8), 1 => None, _ => CUR[0] };
    log_reset();
    do_write(si, wt == 1, newv);
    let seen = if wt == 1 { CUR[0] } else { newv };
    // stamp timing (C09)
    if wt == 0 {
      assert!(log_at(0).kind == K_WRITE_FN && log_at(1).kind == K_STAMP_WRITER, "C09 the write stamp is taken after write_fn has run");
      assert!(log_at(1).seen == abs(M_EXACT, newv), "C09 the write stamp reflects what write_fn stored");
      let st = pie_state(si);
      assert!(st == newv, "C09 write_fn's effect is in the resource");
    } else {
      assert!(log_at(0).kind == K_STAMP && log_at(0).seen == abs(M_EXACT, CUR[0]), "C09 written_to stamps the resource as it is at the call");
    }
    let mut writes = 0;
    for (tn, d) in si.store.get_read_and_write_dependencies_to_resource(&n.r) {
      if tn == n.x { assert!(fp_val(d.stamp()) == 0x2000 | abs(M_EXACT, seen), "C09 recorded write stamp"); writes += 1; }
    }
    assert!(writes == 1, "C06/C08 exactly one write edge from the writer");
    assert!(si.store.get_task_writing_to_resource(&n.r) == Some(n.x), "C06 exactly one recorded writer");
    vcover!(k == 2, "re-execution of the same writer is not an overlap");
  }); }); });
  ::std::mem::forget(pie);
}
fn pie_state(si: &mut SessionInternal) -> Option<u8> { Cell(0).read(si.resource_state).unwrap().val }

// ---- C08: reset + re-record -----------------------------------------------------------------------------------------

/// Execution 1 of T = X records a solver-chosen subset of {read Cell0, require Y, write Cell1} (in that or the reverse order),
/// then reset_task, then execution 2 records another subset. Afterwards exactly execution 2's dependencies remain.
//@h props=C08 tier=quick unwind=14 stubs=sort,boxslice timeout=900 fieldsens=1024
fn ctx_reset_then_rerecord_is_exact() {
  let mut pie = Pie::with_tracker(());
  let mut s = pie.new_session();
  split(8, |pi| { split(1, |_u| { split(1, |_v| {
    let first = [7u8, 7, 3, 5, 0, 1, 6, 7][pi as usize];
    let second = [0u8, 1, 6, 7, 7, 1, 6, 7][pi as usize];
    let had_output = pi & 1;
    let si = &mut s.0;
    let n = nodes(si);
    let r1 = si.store.get_or_create_resource_node(&Cell(1));
    let mut add = |si: &mut SessionInternal, set: u8, stampv: u16| {
      if set & 1 != 0 { let _ = si.store.add_dependency(&n.x, &n.r, ResourceDependency::new(Cell(0), ModeChecker { mode: M_EXACT }, stampv).into_read()); }
      if set & 2 != 0 { let _ = si.store.add_dependency(&n.x, &n.y, TaskDependency::new(P(1), EqualsChecker, stampv as u8).into_require()); }
      if set & 4 != 0 { let _ = si.store.add_dependency(&n.x, &r1, ResourceDependency::new(Cell(1), ModeChecker { mode: M_PARITY }, stampv).into_write()); }
    };
    add(si, first, 1);
    if had_output == 1 { si.store.set_task_output(&n.x, Box::new(3u8)); }
    si.store.reset_task(&n.x);
    assert!(si.store.get_task_output(&n.x).is_none(), "C08 reset drops the cached output");
    assert!(si.store.get_dependencies_from_task(&n.x).count() == 0, "C08 reset drops every dependency of the earlier execution (also of an execution that never produced an output)");
    assert!(si.store.get_tasks_reading_from_resource(&n.r).count() == 0 && si.store.get_task_writing_to_resource(&r1).is_none() && si.store.get_require_dependencies_to_task(&n.y).count() == 0, "C08 reset removes the incoming side of the edges too");
    add(si, second, 2);
    let mut seen = 0u8; let mut count = 0;
    for d in si.store.get_dependencies_from_task(&n.x) {
      match d {
        Dependency::Read(rd) => { assert!(fp_key(rd.resource()) == 0x300 && fp_val(rd.stamp()) == 0x2000 | 2, "C08 read of the latest execution with its stamp"); assert!(seen & 6 == 0 || true, "order"); seen |= 1; }
        Dependency::Require(td) => { assert!(fp_val(td.stamp()) == 0x1000 | 2, "C08 require of the latest execution with its stamp"); seen |= 2; }
        Dependency::Write(rd) => { assert!(fp_key(rd.resource()) == 0x301 && fp_val(rd.stamp()) == 0x2000 | 2, "C08 write of the latest execution with its stamp"); seen |= 4; }
        _ => assert!(false, "C08 no reserved edge is left behind"),
      }
      count += 1;
    }
    assert!(seen == second && count == (second & 1) + ((second >> 1) & 1) + ((second >> 2) & 1), "C08 the recorded dependencies are exactly those of the latest execution");
    assert!((si.store.get_tasks_reading_from_resource(&n.r).count() == 1) == (second & 1 != 0), "C08 reader index agrees");
    assert!(si.store.get_task_writing_to_resource(&r1).is_some() == (second & 4 != 0), "C08 writer index agrees");
    assert!((si.store.get_require_dependencies_to_task(&n.y).count() == 1) == (second & 2 != 0), "C08 requirer index agrees");
  }); }); });
  ::std::mem::forget(pie);
}

// ---- C07 (mechanism level): a require that would close a cycle aborts before the required task is touched --------------

/// X = P(0) is executing and requires Y although Y already (transitively) requires X, or Y is X itself: the reservation of
/// the require edge must abort with a cyclic-dependency error.
//@h props=C07 tier=quick unwind=14 stubs=sort,boxslice timeout=900 fieldsens=1024 expect_fail="Cyclic task dependency; current executing task"
fn ctx_require_closing_a_cycle_aborts() {
  let mut pie = Pie::with_tracker(());
  let mut s = pie.new_session();
  // 0: Y -> X direct; 1: Y -> W -> X; 2: self require; 3: Y -> X where that edge is still reserved (Y is executing further up)
  split(4, |k| {
    let si = &mut s.0;
    let n = nodes(si);
    match k {
      0 => req(si, &n.y, &n.x, 0, false),
      1 => { req(si, &n.y, &n.w, 2, false); req(si, &n.w, &n.x, 0, false); }
      2 => {}
      _ => req(si, &n.y, &n.x, 0, true),
    }
    si.current_executing_task = Some(n.x);
    exec_reset();
    if k == 2 { si.reserve_require_dependency(&n.x, &P(0)); } else { si.reserve_require_dependency(&n.y, &P(1)); }
    assert!(false, "MUST-ABORT: a require closing a cycle was reserved");
  });
  ::std::mem::forget(pie);
}

/// ... and a require that closes no cycle is reserved (edge present, marked reserved) without executing anything.
//@h props=C07,C08:t tier=quick unwind=14 stubs=sort,boxslice timeout=900 fieldsens=1024
fn ctx_require_without_cycle_is_reserved() {
  let mut pie = Pie::with_tracker(());
  let mut s = pie.new_session();
  split(3, |k| {
    let si = &mut s.0;
    let n = nodes(si);
    match k { 0 => {}, 1 => req(si, &n.x, &n.w, 2, false), _ => { req(si, &n.y, &n.w, 2, false); req(si, &n.z, &n.x, 0, false); } }
    si.current_executing_task = Some(n.x);
    exec_reset();
    si.reserve_require_dependency(&n.y, &P(1));
    assert!(exec_total() == 0, "C07 reserving executes nothing");
    let mut reserved = 0;
    for d in si.store.get_dependencies_from_task(&n.x) { if let Dependency::ReservedRequire = d { reserved += 1; } }
    assert!(reserved == 1, "C07/C08 exactly one reserved edge for the pending require");
    assert!(si.store.contains_transitive_task_dependency(&n.x, &n.y), "C07 the reserved edge is visible to cycle and hidden-dependency checks");
  });
  ::std::mem::forget(pie);
}

/// C05 with a query history: an earlier POSITIVE reachability query (resolved through the later-inserted child while a
/// sibling is still pending on the DFS stack) must not influence the hidden-dependency check that follows.
/// A = P(4) requires B = Z and C = Y (in that order); Y requires W; Z requires W. X reads R (written by W) without any path to W.
//@h props=C05 tier=quick unwind=14 stubs=sort,boxslice timeout=900 fieldsens=1024 expect_fail="Hidden dependency; resource"
fn ctx_hidden_read_after_positive_query_aborts() {
  let mut pie = Pie::with_tracker(());
  pie.resource_state_mut::<Cell>().set(CellState { v: CUR });
  let mut s = pie.new_session();
  let si = &mut s.0;
  let n = nodes(si);
  let a = si.store.get_or_create_task_node(&P(4));
  let _ = si.store.add_dependency(&n.w, &n.r, rdep(0, M_EXACT).into_write());
  req(si, &n.z, &n.w, 2, false);
  req(si, &n.y, &n.w, 2, false);
  req(si, &a, &n.z, 3, false);
  req(si, &a, &n.y, 1, false);
  assert!(si.store.contains_transitive_task_dependency(&a, &n.w), "harness: positive query (A reaches W)");
  assert!(!si.store.contains_transitive_task_dependency(&n.x, &n.w), "C11/C05 reachability does not depend on earlier queries");
  si.current_executing_task = Some(n.x);
  let r = si.read(&Cell(0), ModeChecker { mode: M_EXACT });
  assert!(false, "MUST-ABORT: a hidden-dependency read returned (after an unrelated positive reachability query)");
}
