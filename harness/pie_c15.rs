//@file crate=pie attach=src/lib.rs mod=verif_c15
//! C15 — task and resource identity is (concrete type, value).
//! Families of types with identical representation and identical `Hash` output: newtypes TA/TB, a tuple newtype, a
//! generic wrapper, Box/Rc/Arc of a task; Cell/Cell2 as resources. Fields are symbolic bytes.
#![allow(unused, static_mut_refs)]
use std::hash::{Hash, Hasher};
use std::rc::Rc;
use std::sync::Arc;
use crate::verif_vk as vk;
use crate::verif_vk::vcover;
use crate::verif_sup::*;
use crate::store::Store;
use crate::trait_object::base::{EqObj, HashObj};
use crate::trait_object::task::TaskObj;
use crate::trait_object::KeyObj;

const NT: usize = 9;
/// zero-sized keys: two different types whose boxed values share the (dangling) address and the (empty) hash
#[derive(Clone, PartialEq, Eq, Hash, Debug)] pub struct Z1;
#[derive(Clone, PartialEq, Eq, Hash, Debug)] pub struct Z2;
impl crate::Task for Z1 { type Output = u8; fn execute<C: crate::Context>(&self, _c: &mut C) -> u8 { 1 } }
impl crate::Task for Z2 { type Output = u8; fn execute<C: crate::Context>(&self, _c: &mut C) -> u8 { 2 } }
fn keys(x: u8) -> [Box<dyn KeyObj>; NT] {
  [Box::new(TA(x)), Box::new(TB(x)), Box::new(TT((x,))), Box::new(Wrap(TA(x))), Box::new(Box::new(TA(x))), Box::new(Rc::new(TA(x))), Box::new(Arc::new(TA(x))), Box::new(Z1), Box::new(Z2)]
}
fn tasks(x: u8) -> [Box<dyn TaskObj>; NT] {
  [Box::new(TA(x)), Box::new(TB(x)), Box::new(TT((x,))), Box::new(Wrap(TA(x))), Box::new(Box::new(TA(x))), Box::new(Rc::new(TA(x))), Box::new(Arc::new(TA(x))), Box::new(Z1), Box::new(Z2)]
}
fn h_key(k: &dyn KeyObj) -> u64 { let mut h = XorHasher(0); k.hash(&mut h); h.finish() }
fn h_task(k: &dyn TaskObj) -> u64 { let mut h = XorHasher(0); k.hash(&mut h); h.finish() }

/// `dyn KeyObj` equality (both impls) over every ordered pair of the seven types.
//@h props=C15 tier=quick unwind=11
fn c15_keyobj_pairs() {
  let (x, y) = (vk::u8(), vk::u8());
  let (ka, kb) = (keys(x), keys(y));
  let mut i = 0;
  while i < NT {
    let mut j = 0;
    while j < NT {
      let expect = i == j && (x == y || i >= 7);
      let eq1 = ka[i].as_ref() == kb[j].as_ref();            // PartialEq for dyn KeyObj
      let eq2 = ka[i] == *kb[j].as_ref();                     // PartialEq<dyn KeyObj> for Box<dyn KeyObj>
      let eq3 = ka[i].as_ref().eq_any(kb[j].as_ref().as_any()); // EqObj (on the value, not on the Box)
      assert!(eq1 == expect, "C15 dyn KeyObj == iff same concrete type and equal value");
      assert!(eq2 == expect, "C15 Box<dyn KeyObj> == dyn KeyObj iff same concrete type and equal value");
      assert!(eq3 == expect, "C15 eq_any iff same concrete type and equal value");
      if expect { assert!(h_key(ka[i].as_ref()) == h_key(kb[j].as_ref()), "C15 equal keys hash equally"); }
      j += 1;
    }
    i += 1;
  }
  vcover!(x == y, "equal fields reachable");
  vcover!(x != y, "different fields reachable");
  // the family really has coinciding hashes across types (what makes the downcast matter)
  assert!(h_key(ka[0].as_ref()) == h_key(keys(x)[1].as_ref()), "harness sanity: TA(x) and TB(x) hash identically");
  ::std::mem::forget(ka); ::std::mem::forget(kb);
}

/// Same for `dyn TaskObj`.
//@h props=C15 tier=quick unwind=11
fn c15_taskobj_pairs() {
  let (x, y) = (vk::u8(), vk::u8());
  let (ta, tb) = (tasks(x), tasks(y));
  let mut i = 0;
  while i < NT {
    let mut j = 0;
    while j < NT {
      let expect = i == j && (x == y || i >= 7);
      assert!((ta[i].as_ref() == tb[j].as_ref()) == expect, "C15 dyn TaskObj == iff same concrete type and equal value");
      assert!((ta[i] == *tb[j].as_ref()) == expect, "C15 Box<dyn TaskObj> == dyn TaskObj iff same concrete type and equal value");
      assert!((ta[i].as_key_obj() == tb[j].as_key_obj()) == expect, "C15 as_key_obj preserves identity");
      if expect { assert!(h_task(ta[i].as_ref()) == h_task(tb[j].as_ref()), "C15 equal tasks hash equally"); }
      j += 1;
    }
    i += 1;
  }
  ::std::mem::forget(ta); ::std::mem::forget(tb);
}

/// Store level: node identity for tasks. All hashes are forced to collide (model hasher constant), so the lookup
/// has to rely on `Eq`, i.e. on the downcast. Fields symbolic; only node identity is asserted here (the store state after
/// a lookup whose outcome is symbolic is a merged state, see DESIGN §2).
//@h props=C15 tier=quick unwind=9 stubs=sort
fn c15_store_task_nodes() {
  #[cfg(kani)] std::kcoll::set_const_hash(true);
  let (x, y) = (vk::u8(), vk::u8());
  let mut store = Store::default();
  split(3, |shape| {
    match shape {
      0 => {
        let n1 = store.get_or_create_task_node(&TA(x));
        let n2 = store.get_or_create_task_node(&TB(y));
        let n3 = store.get_or_create_task_node(&TA(y));
        assert!(n1 != n2 && n2 != n3, "C15 tasks of different types never share a node");
        assert!((n1 == n3) == (x == y), "C15 same type: same node iff equal value");
        vcover!(n1 == n3, "node shared");
        vcover!(n1 != n3, "node not shared");
      }
      1 => {
        let n1 = store.get_or_create_task_node(&Box::new(TA(x)));
        let n2 = store.get_or_create_task_node(&TA(x));
        let n3 = store.get_or_create_task_node(&Rc::new(TA(x)));
        let n4 = store.get_or_create_task_node(&Box::new(TA(y)));
        assert!(n1 != n2 && n1 != n3 && n2 != n3, "C15 Box<T>, T and Rc<T> are different tasks");
        assert!((n1 == n4) == (x == y), "C15 Box<TA>: same node iff equal value");
      }
      _ => {
        let n1 = store.get_or_create_task_node(&Wrap(TA(x)));
        let n2 = store.get_or_create_task_node(&TT((x,)));
        let n3 = store.get_or_create_task_node(&Wrap(TA(y)));
        assert!(n1 != n2 && n2 != n3, "C15 wrapper and tuple newtype are different tasks");
        assert!((n1 == n3) == (x == y), "C15 Wrap<TA>: same node iff equal value");
      }
    }
  });
  ::std::mem::forget(store);
}

/// Store level: cached outputs follow node identity (equal task => shared output; other type, same fields => none).
//@h props=C15 tier=quick unwind=9 stubs=sort
fn c15_store_outputs_follow_identity() {
  #[cfg(kani)] std::kcoll::set_const_hash(true);
  let x = vk::u8();
  let o = vk::u8();
  let mut store = Store::default();
  let n1 = store.get_or_create_task_node(&TA(x));
  let n2 = store.get_or_create_task_node(&TB(x));
  store.set_task_output(&n1, Box::new(o));
  let n3 = store.get_or_create_task_node(&TA(x)); // an equal task created later
  assert!(n3 == n1 && n2 != n1, "C15 equal task maps to the same node, same-valued task of another type does not");
  assert!(store.get_task_output(&n2).is_none(), "C15 a task of another type does not see the cached output");
  let got = store.get_task_output(&n3).and_then(|v| v.as_any().downcast_ref::<u8>().copied());
  assert!(got == Some(o), "C15 equal tasks share one cached result");
  assert!(store.get_task(&n2).as_key_obj() == (&TB(x) as &dyn KeyObj), "C15 node maps back to its own task");
  assert!(store.get_task(&n1).as_key_obj() != (&TB(x) as &dyn KeyObj), "C15 node of TA is not the task TB");
  ::std::mem::forget(store);
}

/// Store level: resource nodes (and: a resource never aliases a task with the same representation).
//@h props=C15 tier=quick unwind=9 stubs=sort
fn c15_store_resource_nodes() {
  #[cfg(kani)] std::kcoll::set_const_hash(true);
  let (x, y) = (vk::u8(), vk::u8());
  let mut store = Store::default();
  let r1 = store.get_or_create_resource_node(&Cell(x));
  let r2 = store.get_or_create_resource_node(&Cell2(y));
  let r3 = store.get_or_create_resource_node(&Cell(y));
  let t1 = store.get_or_create_task_node(&TA(x));
  assert!(r1 != r2 && r2 != r3, "C15 resources of different types never share a node");
  assert!((r1 == r3) == (x == y), "C15 same resource type: same node iff equal value");
  assert!(store.get_resource(&r2) == (&Cell2(y) as &dyn KeyObj), "C15 resource node maps back to its own resource");
  assert!(store.get_resource(&r1) == (&Cell(x) as &dyn KeyObj), "C15 resource node maps back to its own resource (2)");
  vcover!(r1 == r3, "resource node shared");
  ::std::mem::forget(store);
}
