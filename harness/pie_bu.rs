//@file crate=pie attach=src/context/bottom_up.rs mod=verif_bu caps=slot:6,lhs:4,map:6,vec:6 vec=model
//! C04 / C18 / C09 (mechanism level): the bottom-up scheduling queue, scheduling by resource change, and one
//! execute-and-schedule step, from constructed stores. Tasks P(0..3); resources Cell(0), Cell(1).
#![allow(unused, static_mut_refs)]
use super::*;
use crate::verif_vk as vk;
use crate::verif_vk::vcover;
use crate::verif_sup::*;
use crate::store::{Store, TaskNode, ResourceNode};
use crate::task::EqualsChecker;
use crate::dependency::{Dependency, ResourceDependency, TaskDependency, TaskDependencyObj};
use crate::{Context, Pie, ResourceState, Task};

const CUR: [Option<u8>; NCELL] = [Some(4), Some(7), None];
const NT: usize = 4;
/// Require shapes over P(0..3), as (requirer, required) pairs added in this order.
fn shape(id: u8) -> &'static [(usize, usize)] {
  match id {
    0 => &[(0, 1), (1, 2), (2, 3)],             // chain in creation order
    1 => &[(3, 2), (2, 1), (1, 0)],             // chain against creation order (every edge reorders)
    2 => &[(0, 1), (0, 2), (1, 3), (2, 3)],     // diamond
    3 => &[(2, 0), (3, 1)],                     // two independent pairs, interleaved
    _ => &[],                                   // independent tasks
  }
}
fn closure(edges: &[(usize, usize)]) -> [[bool; NT]; NT] {
  let mut c = [[false; NT]; NT];
  let mut i = 0; while i < edges.len() { c[edges[i].0][edges[i].1] = true; i += 1; }
  let mut k = 0;
  while k < NT { let mut a = 0; while a < NT { if c[a][k] { let mut b = 0; while b < NT { if c[k][b] { c[a][b] = true; } b += 1; } } a += 1; } k += 1; }
  c
}
fn build(store: &mut Store, sh: u8) -> [TaskNode; NT] {
  let n = [store.get_or_create_task_node(&P(0)), store.get_or_create_task_node(&P(1)), store.get_or_create_task_node(&P(2)), store.get_or_create_task_node(&P(3))];
  let e = shape(sh);
  let mut i = 0;
  while i < e.len() {
    let (a, b) = e[i];
    assert!(store.add_dependency(&n[a], &n[b], TaskDependency::new(P(b as u8), AlwaysOk, ()).into_require()).is_ok(), "harness: acyclic");
    i += 1;
  }
  n
}
fn idx(n: &[TaskNode; NT], x: &TaskNode) -> usize { let mut i = 0; while i < NT { if n[i] == *x { return i; } i += 1; } NT }
/// Orders in which a subset of tasks is added to the queue (with a duplicate).
fn add_order(id: u8) -> &'static [usize] {
  match id { 0 => &[0, 1, 2, 3], 1 => &[3, 2, 1, 0, 3], 2 => &[1, 3, 1], 3 => &[2, 0, 3], 4 => &[0, 2], 5 => &[3, 0, 1], 6 => &[1, 2, 3], _ => &[0, 3, 1, 2] }
}

/// `pop` never returns a task that (transitively) requires a task still queued; every queued task comes out exactly once.
/// With `lead` set, one `pop_least_task_with_dependency_from(src)` is done first (its swap_remove must not break later pops).
fn run_queue(sh: u8, lead: bool) {
  let mut store = Store::default();
  let n = build(&mut store, sh);
  let cl = closure(shape(sh));
  split(8, |ord| { split(if lead { NT as u8 } else { 1 }, |src| {
    let mut q: Queue = Queue::new();
    let order = add_order(ord);
    let mut queued = [false; NT];
    let mut i = 0;
    while i < order.len() { q.add(n[order[i]]); queued[order[i]] = true; i += 1; }
    if lead {
      let s = src as usize;
      let got = q.pop_least_task_with_dependency_from(&n[s], &store);
      let mut any = false; let mut j = 0;
      while j < NT { if queued[j] && (j == s || cl[s][j]) { any = true; } j += 1; }
      assert!(got.is_some() == any, "C04 a scheduled task that the required task depends on (or the task itself) is found iff there is one");
      if let Some(g) = got {
        let gi = idx(&n, &g);
        assert!(gi < NT && queued[gi] && (gi == s || cl[s][gi]), "C04 the task handed out is scheduled and is (a dependency of) the required task");
        let mut j = 0;
        while j < NT { if queued[j] && j != gi { assert!(!cl[gi][j], "C04 never a task before a scheduled task it depends on (require-now)"); } j += 1; }
        queued[gi] = false;
      }
    }
    // drain
    let mut remaining = 0; let mut j = 0; while j < NT { if queued[j] { remaining += 1; } j += 1; }
    let mut k = 0;
    while k < NT + 1 {
      match q.pop(&store) {
        None => { assert!(remaining == 0, "C04 every scheduled task is handed out"); break; }
        Some(g) => {
          let gi = idx(&n, &g);
          assert!(gi < NT && queued[gi], "C04 a task is handed out at most once, and only if scheduled");
          let mut j = 0;
          while j < NT { if queued[j] && j != gi { assert!(!cl[gi][j], "C04 a scheduled task is never executed before a scheduled task it depends on"); } j += 1; }
          queued[gi] = false; remaining -= 1;
        }
      }
      k += 1;
    }
    assert!(!q.is_not_empty(), "C04 queue is empty after draining");
  }); });
  ::std::mem::forget(store);
}
//@h props=C04 tier=quick unwind=14 stubs=sort,boxslice timeout=900 fieldsens=1024
fn bu_queue_pop_chain() { run_queue(0, false); }
//@h props=C04 tier=quick unwind=14 stubs=sort,boxslice timeout=900 fieldsens=1024
fn bu_queue_pop_reversed_chain() { run_queue(1, false); }
//@h props=C04 tier=quick unwind=14 stubs=sort,boxslice timeout=900 fieldsens=1024
fn bu_queue_pop_diamond() { run_queue(2, false); }
//@h props=C04 tier=quick unwind=14 stubs=sort,boxslice timeout=1200 fieldsens=1024
fn bu_queue_require_now_then_pop_chain() { run_queue(0, true); }
//@h props=C04 tier=quick unwind=14 stubs=sort,boxslice timeout=1200 fieldsens=1024
fn bu_queue_require_now_then_pop_pairs() { run_queue(3, true); }
// (catalogue entry, not registered: not run to completion within this session's budget)
#[allow(dead_code)]
fn bu_queue_require_now_then_pop_diamond() { run_queue(2, true); }
// (catalogue entry, not registered: not run to completion within this session's budget)
#[allow(dead_code)]
fn bu_queue_require_now_then_pop_reversed_chain() { run_queue(1, true); }
// (catalogue entry, not registered: not run to completion within this session's budget)
#[allow(dead_code)]
fn bu_queue_pop_independent() { run_queue(4, false); }

/// The topological ranks change BETWEEN queue operations (a task that is executing requires an older task for the first time,
/// `DAG::add_edge` re-ranks): after a first `pop`, a new require edge a -> b is added to the store, then `b` is required now
/// and the queue is drained. Order and completeness are judged against the closure of the UPDATED edge set.
fn run_queue_rerank(sh: u8) {
  let mut store = Store::default();
  let n = build(&mut store, sh);
  let e0 = shape(sh);
  let cl0 = closure(e0);
  split(3, |ord| { split(NT as u8, |a| { split(NT as u8, |b| {
    let (a, b) = (a as usize, b as usize);
    if a == b || cl0[b][a] || cl0[a][b] { return; }   // the new edge must be new and keep the graph acyclic
    let mut q: Queue = Queue::new();
    let order = add_order(match ord { 0 => 0, 1 => 1, _ => 7 });
    let mut queued = [false; NT];
    let mut i = 0;
    while i < order.len() { q.add(n[order[i]]); queued[order[i]] = true; i += 1; }
    // first pop (sorts the queue under the OLD ranks)
    if let Some(g) = q.pop(&store) {
      let gi = idx(&n, &g);
      assert!(gi < NT && queued[gi], "C04 only scheduled tasks are handed out");
      let mut j = 0;
      while j < NT { if queued[j] && j != gi { assert!(!cl0[gi][j], "C04 a scheduled task is never executed before a scheduled task it depends on"); } j += 1; }
      queued[gi] = false;
    }
    // new require edge a -> b
    assert!(store.add_dependency(&n[a], &n[b], TaskDependency::new(P(b as u8), AlwaysOk, ()).into_require()).is_ok(), "harness: acyclic");
    let mut ed = [(0usize, 0usize); 5];
    let mut m = 0; while m < e0.len() { ed[m] = e0[m]; m += 1; }
    ed[m] = (a, b);
    let cl = closure(&ed[..m + 1]);
    vcover!(store.topologically_compare(&n[a], &n[b]) == ::std::cmp::Ordering::Less, "c04 rerank: new edge respected by the ranks");
    // require-now of b
    let got = q.pop_least_task_with_dependency_from(&n[b], &store);
    let mut any = false; let mut j = 0;
    while j < NT { if queued[j] && (j == b || cl[b][j]) { any = true; } j += 1; }
    assert!(got.is_some() == any, "C04 after a re-ranking, a scheduled (dependency of the) required task is still found iff there is one");
    if let Some(g) = got {
      let gi = idx(&n, &g);
      assert!(gi < NT && queued[gi] && (gi == b || cl[b][gi]), "C04 the task handed out is scheduled and is (a dependency of) the required task");
      let mut j = 0;
      while j < NT { if queued[j] && j != gi { assert!(!cl[gi][j], "C04 never a task before a scheduled task it depends on (require-now after re-ranking)"); } j += 1; }
      queued[gi] = false;
    }
    // drain under the NEW ranks
    let mut k = 0;
    while k < NT + 1 {
      match q.pop(&store) {
        None => { let mut j = 0; while j < NT { assert!(!queued[j], "C04 every scheduled task is handed out"); j += 1; } break; }
        Some(g) => {
          let gi = idx(&n, &g);
          assert!(gi < NT && queued[gi], "C04 a task is handed out at most once, and only if scheduled");
          let mut j = 0;
          while j < NT { if queued[j] && j != gi { assert!(!cl[gi][j], "C04 a scheduled task is never executed before a scheduled task it depends on (after re-ranking)"); } j += 1; }
          queued[gi] = false;
        }
      }
      k += 1;
    }
  }); }); });
  ::std::mem::forget(store);
}
//@h props=C04:t tier=quick unwind=14 stubs=sort,boxslice timeout=2400 fieldsens=1024
fn bu_queue_rerank_between_operations_pairs() { run_queue_rerank(3); }
//@h props=C04:t tier=thorough unwind=14 stubs=sort,boxslice timeout=2400 fieldsens=1024
fn bu_queue_rerank_between_operations_independent() { run_queue_rerank(4); }

/// Scheduling by a changed resource: a reader and a writer of Cell(0) are each scheduled iff their own checker reports
/// inconsistency, or fails (then the error is reported as well); consistent ones are not scheduled.
//@h props=C04,C18,C09:t tier=quick unwind=14 stubs=sort,boxslice timeout=900 fieldsens=1024
fn bu_schedule_affected_by_resource_iff_inconsistent() {
  let mut pie = Pie::with_tracker(());
  pie.resource_state_mut::<Cell>().set(CellState { v: CUR });
  let mut s = pie.new_session();
  // reader case × writer case; cases: 0 exact ok, 1 exact stale, 2 parity ok although value differs, 3 parity stale, 4 failing errs, 5 always-consistent with stale value
  split(6, |rc| { split(3, |wc| {
    let si = &mut s.0;
    let t_r = si.store.get_or_create_task_node(&P(0));
    let t_w = si.store.get_or_create_task_node(&P(1));
    let r = si.store.get_or_create_resource_node(&Cell(0));
    let cur = CUR[0];
    let mk = |case: u8| -> (u8, u16, bool, bool) { // (mode, stamp, expect scheduled, expect error)
      match case {
        0 => (M_EXACT, abs(M_EXACT, cur), false, false), 1 => (M_EXACT, abs(M_EXACT, Some(9)), true, false),
        2 => (M_PARITY, abs(M_PARITY, Some(6)), false, false), 3 => (M_PARITY, abs(M_PARITY, Some(9)), true, false),
        4 => (M_FAILING, abs(M_FAILING, cur), true, true), _ => (M_ALWAYS, abs(M_ALWAYS, Some(9)), false, false),
      }
    };
    let (rm, rs, r_sched, r_err) = mk(rc);
    let (wm, ws, w_sched, w_err) = mk(if wc == 2 { 4 } else { wc });
    let _ = si.store.add_dependency(&t_w, &r, ResourceDependency::new(Cell(0), ModeChecker { mode: wm }, ws).into_write());
    assert!(si.store.add_dependency(&t_r, &t_w, TaskDependency::new(P(1), AlwaysOk, ()).into_require()).is_ok());
    let _ = si.store.add_dependency(&t_r, &r, ResourceDependency::new(Cell(0), ModeChecker { mode: rm }, rs).into_read());
    if r_err || w_err { unsafe { FAULT[0] = true; } }
    log_reset();
    let mut ctx = BottomUpContext::new(si);
    ctx.schedule_tasks_affected_by(&Cell(0));
    assert!(ctx.scheduled.set.contains(&t_r) == r_sched, "C04/C09/C18 a reader is scheduled iff its own checker reports inconsistency or fails");
    assert!(ctx.scheduled.set.contains(&t_w) == w_sched, "C04/C09/C18 a writer is scheduled iff its own checker reports inconsistency or fails");
    let nerr = ctx.session.dependency_check_errors.len();
    assert!(nerr == (r_err as usize) + (w_err as usize), "C18 every checker failure during scheduling is reported");
    assert!(log_len() == 2, "C09 each dependency on the changed resource is checked once, by its own checker");
    vcover!(rc == 2, "coarse checker: change it must ignore does not schedule");
    vcover!(r_err && w_err, "two failures in one scheduling pass");
  }); });
  ::std::mem::forget(pie);
}

/// The decision whether a requirer is scheduled after the required task produced `new_out`: consistent iff the
/// dependency's own output checker accepts the new output against its stamp (early cut-off); an output of another type is
/// never accepted.
//@h props=C04,C09:t tier=quick unwind=14 stubs=sort,boxslice timeout=600 fieldsens=1024
fn bu_require_dependency_consistent_iff_checker_accepts() {
  let mut pie = Pie::with_tracker(Rec::default());
  let mut s = pie.new_session();
  let (stamp, new_out) = (vk::u8(), vk::u8());
  split(3, |k| {
    let si = &mut s.0;
    let requiring = P(0);
    let res = match k {
      0 => TaskDependency::new(P(1), EqualsChecker, stamp).is_consistent_bottom_up(&new_out, &requiring, &mut si.tracker),
      1 => TaskDependency::new(P(1), AlwaysOk, ()).is_consistent_bottom_up(&new_out, &requiring, &mut si.tracker),
      _ => TaskDependency::new(P(1), EqualsChecker, stamp).is_consistent_bottom_up(&(new_out as u16), &requiring, &mut si.tracker),
    };
    let expect = match k { 0 => stamp == new_out, 1 => true, _ => false };
    assert!(res == expect, "C04/C09 require dependency consistent bottom-up iff its own checker accepts the new output");
    vcover!(k == 0 && res, "early cut-off: equal output accepted");
    vcover!(k == 0 && !res, "changed output rejected");
  });
  ::std::mem::forget(pie);
}

/// C18: a checker failure found while the task is ALREADY scheduled (for another changed resource) is still reported.
//@h props=C18,C04 tier=quick unwind=14 stubs=sort,boxslice timeout=900 fieldsens=1024
fn bu_schedule_error_reported_when_task_already_scheduled() {
  let mut pie = Pie::with_tracker(());
  pie.resource_state_mut::<Cell>().set(CellState { v: CUR });
  let mut s = pie.new_session();
  split(2, |order| {
    let si = &mut s.0;
    let t = si.store.get_or_create_task_node(&P(0));
    let r0 = si.store.get_or_create_resource_node(&Cell(0));
    let r1 = si.store.get_or_create_resource_node(&Cell(1));
    let _ = si.store.add_dependency(&t, &r0, ResourceDependency::new(Cell(0), ModeChecker { mode: M_FAILING }, abs(M_FAILING, CUR[0])).into_read());
    let _ = si.store.add_dependency(&t, &r1, ResourceDependency::new(Cell(1), ModeChecker { mode: M_EXACT }, abs(M_EXACT, Some(1))).into_read());
    unsafe { FAULT[0] = true; }
    let mut ctx = BottomUpContext::new(si);
    if order == 0 { ctx.schedule_tasks_affected_by(&Cell(1)); ctx.schedule_tasks_affected_by(&Cell(0)); }
    else { ctx.schedule_tasks_affected_by(&Cell(0)); ctx.schedule_tasks_affected_by(&Cell(1)); }
    assert!(ctx.scheduled.set.contains(&t), "C18/C04 the task is scheduled");
    assert!(ctx.session.dependency_check_errors.len() == 1, "C18 the checker failure is reported, whether or not the task was already scheduled");
    let mut n = 0; while ctx.scheduled.pop(&ctx.session.store).is_some() { n += 1; }
    assert!(n == 1, "C04 scheduled once");
  });
  ::std::mem::forget(pie);
}

/// Two consecutive require-now removals (sources solver-chosen) from a fully scheduled chain 0 -> 1 -> 2 -> 3, then draining:
/// the answer of the second must not depend on the reachability queries made for the first.
//@h props=C04 tier=quick unwind=14 stubs=sort,boxslice timeout=1500 fieldsens=1024
fn bu_queue_two_require_now_then_pop_chain() {
  let mut store = Store::default();
  let n = build(&mut store, 0);
  let cl = closure(shape(0));
  split(NT as u8, |s1| { split(NT as u8, |s2| {
    let mut q: Queue = Queue::new();
    let mut queued = [true; NT];
    let mut i = 0; while i < NT { q.add(n[i]); i += 1; }
    let mut round = 0;
    while round < 2 {
      let s = if round == 0 { s1 as usize } else { s2 as usize };
      let got = q.pop_least_task_with_dependency_from(&n[s], &store);
      let mut any = false; let mut j = 0;
      while j < NT { if queued[j] && (j == s || cl[s][j]) { any = true; } j += 1; }
      assert!(got.is_some() == any, "C04 a scheduled task that the required task depends on (or the task itself) is found iff there is one");
      if let Some(g) = got {
        let gi = idx(&n, &g);
        assert!(gi < NT && queued[gi] && (gi == s || cl[s][gi]), "C04 the task handed out is scheduled and is (a dependency of) the required task");
        let mut j = 0;
        while j < NT { if queued[j] && j != gi { assert!(!cl[gi][j], "C04 never a task before a scheduled task it depends on (require-now)"); } j += 1; }
        queued[gi] = false;
      }
      round += 1;
    }
    let mut k = 0;
    while k < NT + 1 {
      match q.pop(&store) {
        None => break,
        Some(g) => {
          let gi = idx(&n, &g);
          assert!(gi < NT && queued[gi], "C04 a task is handed out at most once, and only if scheduled");
          let mut j = 0;
          while j < NT { if queued[j] && j != gi { assert!(!cl[gi][j], "C04 a scheduled task is never executed before a scheduled task it depends on"); } j += 1; }
          queued[gi] = false;
        }
      }
      k += 1;
    }
    let mut j = 0; while j < NT { assert!(!queued[j], "C04 every scheduled task is handed out"); j += 1; }
  }); });
  ::std::mem::forget(store);
}

/// One-level `BottomUpContext::require` from inside an executing task: an already consistent task returns its cached output;
/// a task that never ran is executed (once); an existing task that was not scheduled (nothing affects it) is reused without
/// executing. In all cases the dependency is recorded with the checker passed and a stamp of the output returned (C09).
//@h props=C04,C09 tier=quick unwind=14 stubs=sort,boxslice timeout=900 fieldsens=1024
fn bu_require_one_level() {
  let mut pie = Pie::with_tracker(());
  let mut s = pie.new_session();
  unsafe { PROG[1] = [Ins::Set(5), Ins::End, Ins::End, Ins::End]; }
  split(3, |case| {
    let si = &mut s.0;
    let t = si.store.get_or_create_task_node(&P(0));
    let u = si.store.get_or_create_task_node(&P(1));
    if case != 1 { si.store.set_task_output(&u, Box::new(33u8)); }
    if case == 0 { si.consistent.insert(u); }
    si.current_executing_task = Some(t);
    exec_reset();
    let mut ctx = BottomUpContext::new(si);
    let got = ctx.require(&P(1), EqualsChecker);
    let expect: u8 = if case == 1 { 5 } else { 33 };
    assert!(got == expect, "C04/C09 bottom-up require returns the required task's up-to-date output");
    assert!(exec_count(1) == if case == 1 { 1 } else { 0 }, "C04 only a task that never ran is executed; consistent and unaffected tasks are reused");
    assert!(ctx.session.consistent.contains(&u), "C04 the required task is consistent for the rest of the build");
    let mut n = 0;
    for d in ctx.session.store.get_dependencies_from_task(&t) {
      match d {
        Dependency::Require(td) => assert!(fp_val(td.checker()) == 0x5000 && fp_val(td.stamp()) == 0x1000 | expect as u16, "C09 bottom-up require dependency is stamped from the output returned to the requirer"),
        _ => assert!(false, "C08 the reserved require edge is upgraded to a real require dependency"),
      }
      n += 1;
    }
    assert!(n == 1, "C08 one require performed, one dependency recorded");
  });
  ::std::mem::forget(pie);
}
