//@file crate=graph attach=src/lib.rs mod=verif_dag caps=slot:4,lhs:4,map:6,vec:8 vec=model
//! C10 / C11 (and the graph halves of C07, C16): the real `DAG<u8,u8>` against a reference model, explored as a tree of
//! operation sequences. Every operation's kind and operands are solver variables (`vk::below`), case-split in
//! continuation-passing style so that CBMC's symbolic execution keeps the heap shape concrete inside each arm; edge
//! payloads and node data stay symbolic bytes throughout. After EVERY operation the complete observable state of the
//! real DAG is compared with the reference (C11) and the rank/acyclicity invariant and the add_edge contract are
//! asserted (C10).
#![allow(unused, static_mut_refs)]
use super::*;
use crate::verif_vk as vk;
use crate::verif_vk::vcover;

type G = DAG<u8, u8>;
/// Number of node handles tracked (live or removed).
const NH: usize = 4;

#[derive(Clone, Copy)]
struct Ref {
  nh: usize,                     // handles allocated so far
  alive: [bool; NH],
  ndata: [u8; NH],
  out: [[usize; NH]; NH], out_len: [usize; NH],   // children in order of first insertion
  inn: [[usize; NH]; NH], inn_len: [usize; NH],   // parents in order of first insertion
  data: [[Option<u8>; NH]; NH],                   // payload given at first insertion
}
impl Ref {
  fn new() -> Self {
    Ref { nh: 0, alive: [false; NH], ndata: [0; NH], out: [[0; NH]; NH], out_len: [0; NH], inn: [[0; NH]; NH], inn_len: [0; NH], data: [[None; NH]; NH] }
  }
  fn adj(&self, a: usize, b: usize) -> bool { self.data[a][b].is_some() }
  /// Transitive closure (paths of length >= 1), Warshall.
  fn closure(&self) -> [[bool; NH]; NH] {
    let mut c = [[false; NH]; NH];
    let mut a = 0;
    while a < NH { let mut b = 0; while b < NH { c[a][b] = self.adj(a, b); b += 1; } a += 1; }
    let mut k = 0;
    while k < NH {
      let mut a = 0;
      while a < NH { if c[a][k] { let mut b = 0; while b < NH { if c[k][b] { c[a][b] = true; } b += 1; } } a += 1; }
      k += 1;
    }
    c
  }
  fn list_remove(list: &mut [usize; NH], len: &mut usize, x: usize) {
    let mut j = 0; let mut w = 0;
    while j < *len { if list[j] != x { list[w] = list[j]; w += 1; } j += 1; }
    *len = w;
  }
  fn remove_edge(&mut self, a: usize, b: usize) {
    self.data[a][b] = None;
    let (mut l, mut n) = (self.out[a], self.out_len[a]); Self::list_remove(&mut l, &mut n, b); self.out[a] = l; self.out_len[a] = n;
    let (mut l, mut n) = (self.inn[b], self.inn_len[b]); Self::list_remove(&mut l, &mut n, a); self.inn[b] = l; self.inn_len[b] = n;
  }
  fn n_alive(&self) -> usize { let mut c = 0; let mut i = 0; while i < NH { if self.alive[i] { c += 1; } i += 1; } c }
}

struct St { nodes: [Node; NH], rf: Ref, ranks: [u32; NH], cl: [[bool; NH]; NH] }

fn handle_of(st: &St, n: &Node) -> usize {
  let mut i = 0;
  while i < st.rf.nh { if st.nodes[i] == *n { return i; } i += 1; }
  NH
}

/// C10 invariant: ranks are a bijection onto 1..=len over exactly the live handles, rank(src) < rank(dst) per edge.
/// Also refreshes `st.ranks`.
fn check_ranks(dag: &G, st: &mut St) {
  let n = st.rf.n_alive();
  assert!(dag.len() == n, "C10 len equals number of live nodes");
  assert!(dag.is_empty() == (n == 0), "C10 is_empty");
  let mut seen_rank = [false; NH + 1];
  let mut seen_node = [false; NH];
  let mut count = 0;
  for (rank, node) in dag.iter_unsorted() {
    let h = handle_of(st, &node);
    assert!(h < NH && st.rf.alive[h], "C10 iter_unsorted yields only live nodes");
    assert!(!seen_node[h], "C10 iter_unsorted yields each node once");
    seen_node[h] = true;
    assert!(rank >= 1 && (rank as usize) <= n, "C10 ranks lie in 1..=n (gap-free)");
    assert!(!seen_rank[rank as usize], "C10 ranks are pairwise distinct");
    seen_rank[rank as usize] = true;
    st.ranks[h] = rank;
    count += 1;
  }
  assert!(count == n, "C10 iter_unsorted yields every live node");
  let mut a = 0;
  while a < NH {
    let mut b = 0;
    while b < NH {
      if st.rf.adj(a, b) { assert!(st.ranks[a] < st.ranks[b], "C10 rank(src) < rank(dst) for every edge"); }
      b += 1;
    }
    a += 1;
  }
}

/// C11: every public query answers according to the reference edge set.
fn check_queries(dag: &G, st: &St, mask: u8) {
  let rf = &st.rf;
  let mut a = 0;
  while a < rf.nh {
    let na = st.nodes[a];
    if mask & 1 != 0 {
    assert!(dag.contains_node(&na) == rf.alive[a], "C11 contains_node");
    assert!(dag.get_node_data(&na).copied() == if rf.alive[a] { Some(rf.ndata[a]) } else { None }, "C11 get_node_data");
    // outgoing adjacency: order of first insertion, with first-insertion data
    let exp_len = if rf.alive[a] { rf.out_len[a] } else { 0 };
    let mut i = 0;
    for x in dag.get_outgoing_edge_nodes(&na) {
      assert!(i < exp_len && *x == st.nodes[rf.out[a][i]], "C11 get_outgoing_edge_nodes order/content");
      i += 1;
    }
    assert!(i == exp_len, "C11 get_outgoing_edge_nodes length");
    let mut i = 0;
    for (x, d) in dag.get_outgoing_edges(&na) {
      assert!(i < exp_len && *x == st.nodes[rf.out[a][i]] && Some(*d) == rf.data[a][rf.out[a][i]], "C11 get_outgoing_edges order/data");
      i += 1;
    }
    assert!(i == exp_len, "C11 get_outgoing_edges length");
    let mut i = 0;
    for d in dag.get_outgoing_edge_data(&na) {
      assert!(i < exp_len && Some(*d) == rf.data[a][rf.out[a][i]], "C11 get_outgoing_edge_data order/data");
      i += 1;
    }
    assert!(i == exp_len, "C11 get_outgoing_edge_data length");
    let mut i = 0;
    for d in dag.get_outgoing_edge_node_data(&na) {
      assert!(i < exp_len && *d == rf.ndata[rf.out[a][i]], "C11 get_outgoing_edge_node_data");
      i += 1;
    }
    assert!(i == exp_len, "C11 get_outgoing_edge_node_data length");
    }
    if mask & 2 != 0 {
    // incoming adjacency
    let exp_len = if rf.alive[a] { rf.inn_len[a] } else { 0 };
    let mut i = 0;
    for x in dag.get_incoming_edge_nodes(&na) {
      assert!(i < exp_len && *x == st.nodes[rf.inn[a][i]], "C11 get_incoming_edge_nodes order/content");
      i += 1;
    }
    assert!(i == exp_len, "C11 get_incoming_edge_nodes length");
    let mut i = 0;
    for (x, d) in dag.get_incoming_edges(&na) {
      assert!(i < exp_len && *x == st.nodes[rf.inn[a][i]] && Some(*d) == rf.data[rf.inn[a][i]][a], "C11 get_incoming_edges order/data");
      i += 1;
    }
    assert!(i == exp_len, "C11 get_incoming_edges length");
    let mut i = 0;
    for d in dag.get_incoming_edge_data(&na) {
      assert!(i < exp_len && Some(*d) == rf.data[rf.inn[a][i]][a], "C11 get_incoming_edge_data order/data");
      i += 1;
    }
    assert!(i == exp_len, "C11 get_incoming_edge_data length");
    let mut i = 0;
    for d in dag.get_incoming_edge_node_data(&na) {
      assert!(i < exp_len && *d == rf.ndata[rf.inn[a][i]], "C11 get_incoming_edge_node_data");
      i += 1;
    }
    assert!(i == exp_len, "C11 get_incoming_edge_node_data length");
    }
    if mask & 4 != 0 {
    // pairwise queries
    let mut b = 0;
    while b < rf.nh {
      let nb = st.nodes[b];
      let both = rf.alive[a] && rf.alive[b];
      assert!(dag.contains_edge(&na, &nb) == (both && rf.adj(a, b)), "C11 contains_edge");
      let exp_reach = both && a != b && st.cl[a][b];
      assert!(dag.contains_transitive_edge(&na, &nb) == exp_reach, "C11 contains_transitive_edge");
      if both {
        assert!(dag.get_edge_data(&na, &nb).copied() == rf.data[a][b], "C11 get_edge_data");
        assert!(dag.topo_cmp(&na, &nb) == st.ranks[a].cmp(&st.ranks[b]), "C11 topo_cmp equals rank comparison");
      }
      b += 1;
    }
    }
    if mask & 8 != 0 {
    // descendants
    match dag.descendants_unsorted(&na) {
      Err(e) => assert!(!rf.alive[a] && e == Error::NodeMissing, "C11 descendants_unsorted Err iff node missing"),
      Ok(it) => {
        assert!(rf.alive[a], "C11 descendants_unsorted Ok only for live node");
        let mut seen = [false; NH];
        for (rank, x) in it {
          let h = handle_of(st, &x);
          assert!(h < NH && st.cl[a][h], "C11 descendants_unsorted yields only reachable nodes");
          assert!(!seen[h], "C11 descendants_unsorted yields each node once");
          assert!(rank == st.ranks[h], "C11 descendants_unsorted carries the node's rank");
          seen[h] = true;
        }
        let mut b = 0;
        while b < NH { if rf.alive[b] && st.cl[a][b] { assert!(seen[b], "C11 descendants_unsorted yields every reachable node"); } b += 1; }
      }
    }
    }
    if mask & 16 != 0 {
    match dag.descendants(&na) {
      Err(e) => assert!(!rf.alive[a] && e == Error::NodeMissing, "C11 descendants Err iff node missing"),
      Ok(it) => {
        assert!(rf.alive[a], "C11 descendants Ok only for live node");
        let mut seen = [false; NH];
        let mut last = 0u32;
        for x in it {
          let h = handle_of(st, &x);
          assert!(h < NH && st.cl[a][h], "C11 descendants yields only reachable nodes");
          assert!(!seen[h], "C11 descendants yields each node once");
          assert!(st.ranks[h] > last, "C11 descendants in ascending topological rank");
          last = st.ranks[h];
          seen[h] = true;
        }
        let mut b = 0;
        while b < NH { if rf.alive[b] && st.cl[a][b] { assert!(seen[b], "C11 descendants yields every reachable node"); } b += 1; }
      }
    }
    }
    a += 1;
  }
}

const OP_ADD_EDGE: u8 = 0;
const OP_REMOVE_EDGE: u8 = 1;
const OP_REMOVE_OUT: u8 = 2;
const OP_REMOVE_NODE: u8 = 3;
const OP_ADD_NODE: u8 = 4;

/// Applies one operation (concrete kind/operands inside an arm; payload symbolic) to both the real DAG and the
/// reference, asserting the operation's own contract (C10 for add_edge, C11 for removals).
fn apply(dag: &mut G, st: &mut St, op: u8, a: usize, b: usize, payload: u8) {
  match op {
    OP_ADD_EDGE => {
      let before = st.ranks;
      let cl = st.cl;
      let res = dag.add_edge(&st.nodes[a], &st.nodes[b], payload);
      let rf = &mut st.rf;
      if !rf.alive[a] || !rf.alive[b] {
        assert!(res == Err(Error::NodeMissing), "C10 add_edge on a removed node is NodeMissing");
      } else if a == b || cl[b][a] {
        assert!(res == Err(Error::CycleDetected), "C10 add_edge rejected as cycle exactly when dst reaches src or src == dst");
        vcover!(a != b, "cycle through a path rejected");
      } else if rf.adj(a, b) {
        assert!(res == Ok(false), "C10/C11 add_edge on an existing edge returns Ok(false)");
        vcover!(rf.out_len[a] > 1, "existing edge re-inserted at a node with several children");
      } else {
        assert!(res == Ok(true), "C10 add_edge accepted when it closes no cycle");
        rf.data[a][b] = Some(payload);
        rf.out[a][rf.out_len[a]] = b; rf.out_len[a] += 1;
        rf.inn[b][rf.inn_len[b]] = a; rf.inn_len[b] += 1;
        vcover!(before[a] > before[b], "accepted edge that needs a reorder");
      }
      if res.is_err() {
        // rollback: ranks unchanged (adjacency/data equality is checked against the unchanged reference below)
        check_ranks(dag, st);
        let mut i = 0;
        while i < NH { if st.rf.alive[i] { assert!(st.ranks[i] == before[i], "C10 rejected insertion leaves the ranks as they were"); } i += 1; }
      }
    }
    OP_REMOVE_EDGE => {
      let res = dag.remove_edge(&st.nodes[a], &st.nodes[b]);
      let rf = &mut st.rf;
      let exp = if rf.alive[a] && rf.alive[b] { rf.data[a][b] } else { None };
      assert!(res == exp, "C11 remove_edge returns the edge's data iff the edge existed");
      if exp.is_some() { rf.remove_edge(a, b); }
    }
    OP_REMOVE_OUT => {
      let res = dag.remove_outgoing_edges_of_node(&st.nodes[a]);
      let rf = &mut st.rf;
      if !rf.alive[a] || rf.out_len[a] == 0 {
        assert!(res.is_none(), "C11 remove_outgoing_edges_of_node is None for a missing node or a node without children");
      } else {
        let v = res.expect("C11 remove_outgoing_edges_of_node returns the removed edges");
        assert!(v.len() == rf.out_len[a], "C11 remove_outgoing_edges_of_node removes exactly the outgoing edges");
        let mut i = 0;
        while i < rf.out_len[a] {
          let c = rf.out[a][i];
          assert!(v[i].0 == st.nodes[c] && Some(v[i].1) == rf.data[a][c], "C11 remove_outgoing_edges_of_node returns (child, data) in order");
          i += 1;
        }
        ::std::mem::forget(v);
        while rf.out_len[a] > 0 { let c = rf.out[a][0]; rf.remove_edge(a, c); }
      }
    }
    OP_REMOVE_NODE => {
      let before = st.ranks;
      let res = dag.remove_node(st.nodes[a]);
      let rf = &mut st.rf;
      assert!(res == rf.alive[a], "C11 remove_node returns whether the node was present");
      if rf.alive[a] {
        let mut j = 0;
        while j < NH {
          if rf.adj(a, j) { rf.remove_edge(a, j); }
          if rf.adj(j, a) { rf.remove_edge(j, a); }
          j += 1;
        }
        rf.alive[a] = false;
        check_ranks(dag, st);
        // compaction keeps the relative order of the remaining nodes
        let mut i = 0;
        while i < NH {
          if st.rf.alive[i] {
            let exp = if before[i] > before[a] { before[i] - 1 } else { before[i] };
            assert!(st.ranks[i] == exp, "C10 remove_node shifts exactly the ranks above the removed one");
          }
          i += 1;
        }
      }
    }
    _ => {
      if st.rf.nh < NH {
        let h = st.rf.nh;
        let n = dag.add_node(payload);
        let mut i = 0;
        while i < h { assert!(st.nodes[i] != n, "C10 add_node returns a handle distinct from every earlier one (also removed ones)"); i += 1; }
        st.nodes[h] = n;
        st.rf.nh = h + 1;
        st.rf.alive[h] = true;
        st.rf.ndata[h] = payload;
        check_ranks(dag, st);
        assert!(st.ranks[h] as usize == st.rf.n_alive(), "C10 a new node gets the last rank");
      }
    }
  }
}

/// `n` arms, exactly one of which runs, chosen by the solver; the arm (and everything after it) runs inside the call.
#[inline(always)]
fn split<F: FnMut(u8)>(n: u8, mut f: F) {
  let c = vk::below(n);
  let mut k = 0u8;
  while k < n { if c == k { f(k); return; } k += 1; }
}

const N_OPS: u8 = (2 * NH * NH + 2 * NH + 1) as u8;
fn decode(k: u8) -> (u8, usize, usize) {
  let k = k as usize;
  if k < NH * NH { (OP_ADD_EDGE, k / NH, k % NH) }
  else if k < 2 * NH * NH { (OP_REMOVE_EDGE, (k - NH * NH) / NH, (k - NH * NH) % NH) }
  else if k < 2 * NH * NH + NH { (OP_REMOVE_OUT, k - 2 * NH * NH, 0) }
  else if k < 2 * NH * NH + 2 * NH { (OP_REMOVE_NODE, k - 2 * NH * NH - NH, 0) }
  else { (OP_ADD_NODE, 0, 0) }
}
/// Operation groups (bit mask G): 1 = add_edge, 2 = remove_edge, 4 = remove_outgoing / remove_node / add_node.
fn in_group(op: u8, g: u8) -> bool {
  match op { OP_ADD_EDGE => g & 1 != 0, OP_REMOVE_EDGE => g & 2 != 0, _ => g & 4 != 0 }
}

fn step_and_check<const Q: u8>(dag: &mut G, st: &mut St, op: u8, a: usize, b: usize, payload: u8) {
  apply(dag, st, op, a, b, payload);
  st.cl = st.rf.closure();
  check_ranks(dag, st);
  if Q != 0 { check_queries(dag, st, Q); }
}

/// Explore every sequence of `depth` operations from the current (concrete-shaped) state. `G1` restricts the FIRST
/// operation to a group (used to partition the tree over several harnesses); deeper levels use all operations.
fn explore<const Q: u8>(dag: &mut G, st: &mut St, depth: u8, g1: u8, lim: usize) {
  if depth == 0 { return; }
  split(N_OPS, |k| {
    let (op, a, b) = decode(k);
    if !in_group(op, g1) { return; }
    if a >= st.rf.nh || b >= st.rf.nh || a >= lim || b >= lim { return; } // handle not allocated (or outside this harness's operand range)
    if op == OP_ADD_NODE && lim < NH { return; }
    let payload = vk::u8();
    step_and_check::<Q>(dag, st, op, a, b, payload);
    explore::<Q>(dag, st, depth - 1, 7, lim);
  });
}

/// Concrete pre-state scripts (each op goes through `step_and_check::<0>`, so every prefix is checked for C10 too).
/// Encoded as (op, a, b). All start from three fresh nodes 0,1,2 (ranks 1,2,3).
fn prestate(id: u8) -> &'static [(u8, usize, usize)] {
  match id {
    0 => &[],                                                                  // no edges
    1 => &[(OP_ADD_EDGE, 0, 1), (OP_ADD_EDGE, 1, 2)],                          // chain in rank order
    2 => &[(OP_ADD_EDGE, 2, 1), (OP_ADD_EDGE, 1, 0)],                          // chain against creation order (two reorders)
    3 => &[(OP_ADD_EDGE, 0, 1), (OP_ADD_EDGE, 0, 2)],                          // fork
    4 => &[(OP_ADD_EDGE, 0, 2), (OP_ADD_EDGE, 1, 2)],                          // join
    5 => &[(OP_ADD_EDGE, 2, 0)],                                               // one reordering edge, node 1 in between
    6 => &[(OP_ADD_EDGE, 0, 1), (OP_ADD_EDGE, 1, 2), (OP_ADD_EDGE, 0, 2)],     // transitive triangle
    7 => &[(OP_ADD_NODE, 0, 0), (OP_ADD_EDGE, 3, 0), (OP_ADD_EDGE, 0, 1)],     // four nodes, late node on top
    8 => &[(OP_ADD_EDGE, 0, 1), (OP_REMOVE_NODE, 1, 0), (OP_ADD_NODE, 0, 0)],  // removed node + slot reuse (stale handle 1)
    9 => &[(OP_ADD_EDGE, 1, 0), (OP_ADD_EDGE, 2, 0), (OP_REMOVE_EDGE, 1, 0)],  // removal leaves ranks permuted
    10 => &[(OP_ADD_NODE, 0, 0), (OP_ADD_EDGE, 0, 2), (OP_ADD_EDGE, 1, 3)],    // four nodes, two interleaved edges 0->2, 1->3
    11 => &[(OP_ADD_NODE, 0, 0), (OP_ADD_EDGE, 3, 2), (OP_ADD_EDGE, 2, 1), (OP_ADD_EDGE, 1, 0)], // four nodes fully reversed
    12 => &[(OP_ADD_NODE, 0, 0), (OP_ADD_EDGE, 0, 1), (OP_ADD_EDGE, 0, 2), (OP_ADD_EDGE, 1, 2), (OP_ADD_EDGE, 2, 3)], // a->b, a->c, b->c, c->d
    13 => &[(OP_ADD_NODE, 0, 0), (OP_ADD_EDGE, 0, 1), (OP_ADD_EDGE, 0, 2), (OP_ADD_EDGE, 1, 3), (OP_ADD_EDGE, 2, 3)],  // diamond
    14 => &[(OP_ADD_NODE, 0, 0), (OP_ADD_EDGE, 1, 2)],                         // four nodes, one edge in the middle (forward change set of two)
    _ => &[(OP_ADD_NODE, 0, 0), (OP_ADD_EDGE, 2, 3)],                          // four nodes, one edge at the end (backward change set of two)
  }
}

fn setup(pre: u8) -> (G, St) {
  let mut dag: G = DAG::default();
  let mut st = St { nodes: [Node(Default::default()); NH], rf: Ref::new(), ranks: [0; NH], cl: [[false; NH]; NH] };
  // three initial nodes with symbolic data
  let mut i = 0;
  while i < 3 { step_and_check::<0>(&mut dag, &mut st, OP_ADD_NODE, 0, 0, vk::u8()); i += 1; }
  let script = prestate(pre);
  let mut i = 0;
  while i < script.len() {
    let (op, a, b) = script[i];
    step_and_check::<0>(&mut dag, &mut st, op, a, b, vk::u8());
    i += 1;
  }
  (dag, st)
}

fn run<const Q: u8>(pre: u8, depth: u8, g1: u8, lim: usize) {
  let (mut dag, mut st) = setup(pre);
  if Q != 0 { check_queries(&dag, &st, Q); }
  explore::<Q>(&mut dag, &mut st, depth, g1, lim);
  ::std::mem::forget(dag);
}

/// C11, query histories: reachability answers must not depend on earlier queries (the DFS scratch space is reused).
/// Two consecutive `contains_transitive_edge` queries with solver-chosen operands, the first one positive.
fn run_query_pairs(pre: u8) {
  let (dag, st) = setup(pre);
  split((NH * NH) as u8, |p| {
    let (a, b) = ((p as usize) / NH, (p as usize) % NH);
    if a >= st.rf.nh || b >= st.rf.nh || !st.cl[a][b] { return; } // first query: a positive one (early return inside the DFS)
    split((NH * NH) as u8, |q| {
      let (c, d) = ((q as usize) / NH, (q as usize) % NH);
      if c >= st.rf.nh || d >= st.rf.nh { return; }
      assert!(dag.contains_transitive_edge(&st.nodes[a], &st.nodes[b]), "C11 contains_transitive_edge (first query)");
      let exp = st.rf.alive[c] && st.rf.alive[d] && c != d && st.cl[c][d];
      vcover!(!exp, "negative second query after a positive first one");
      assert!(dag.contains_transitive_edge(&st.nodes[c], &st.nodes[d]) == exp, "C11 contains_transitive_edge is independent of earlier queries");
    });
  });
  ::std::mem::forget(dag);
}

/// C16 (graph half): `reorder_nodes` iterates two `HashSet`s, whose iteration order is unspecified (random per process).
/// The same add_edge is applied to two identically built DAGs: on A the model yields the sets in a solver-chosen order,
/// on B in slot order. Result, ranks and adjacency order must not depend on that order. (The order on A is one of five fixed
/// alternative orders chosen by the solver per arm — all permutations for sets of up to three elements.)
#[cfg(kani)]
fn run_c16(pre: u8) {
  let (mut a, mut st) = setup(pre);
  // twin built by the same script (payloads irrelevant here)
  let mut b: G = DAG::default();
  let mut nb = [Node(Default::default()); NH];
  let mut nhb = 0usize;
  let mut i = 0; while i < 3 { nb[nhb] = b.add_node(0); nhb += 1; i += 1; }
  let script = prestate(pre);
  let mut i = 0;
  while i < script.len() {
    let (op, x, y) = script[i];
    match op {
      OP_ADD_EDGE => { let _ = b.add_edge(&nb[x], &nb[y], 0); }
      OP_REMOVE_EDGE => { let _ = b.remove_edge(&nb[x], &nb[y]); }
      OP_REMOVE_NODE => { let _ = b.remove_node(nb[x]); }
      OP_REMOVE_OUT => { let _ = b.remove_outgoing_edges_of_node(&nb[x]); }
      _ => { nb[nhb] = b.add_node(0); nhb += 1; }
    }
    i += 1;
  }
  split((NH * NH) as u8, |k| { split(5, |mode| {
    let (x, y) = ((k as usize) / NH, (k as usize) % NH);
    if x >= st.rf.nh || y >= st.rf.nh { return; }
    // only edges that trigger a reorder are interesting here
    if !(st.rf.alive[x] && st.rf.alive[y] && st.ranks[x] > st.ranks[y]) { return; }
    std::kcoll::set_order_mode(mode + 1);
    let ra = a.add_edge(&st.nodes[x], &st.nodes[y], 1);
    std::kcoll::set_order_mode(0);
    let rb = b.add_edge(&nb[x], &nb[y], 1);
    assert!(ra == rb, "C16 add_edge result is independent of hash-set iteration order");
    let mut h = 0;
    while h < st.rf.nh {
      if st.rf.alive[h] {
        assert!(a.topo_cmp(&st.nodes[h], &st.nodes[x]) == b.topo_cmp(&nb[h], &nb[x]), "C16 resulting topological order is independent of hash-set iteration order");
        assert!(a.topo_cmp(&st.nodes[h], &st.nodes[y]) == b.topo_cmp(&nb[h], &nb[y]), "C16 resulting topological order is independent of hash-set iteration order (2)");
      }
      h += 1;
    }
    // ranks still a valid order on A
    if ra.is_ok() { if ra == Ok(true) { st.rf.data[x][y] = Some(1); } check_ranks(&a, &mut st); }
    vcover!(ra == Ok(true), "an accepted edge that needed a reorder");
  }); });
  ::std::mem::forget(a); ::std::mem::forget(b);
}

/// Native counterpart of `run_c16` (used only to replay a counterexample against the real hashbrown): the iteration order
/// of a real `HashSet` cannot be chosen, but it is a function of the hasher, so A is rebuilt with 200 different hasher seeds and
/// compared with B (seed 0). A violation reproduces if some seed makes the results differ or breaks the rank invariant.
#[cfg(not(kani))]
mod c16_native {
  use super::*;
  use std::hash::{BuildHasher, Hasher};
  use std::sync::atomic::{AtomicU64, Ordering as AO};
  pub static SEED: AtomicU64 = AtomicU64::new(0);
  #[derive(Clone)] pub struct SeedBH(u64);
  impl Default for SeedBH { fn default() -> Self { SeedBH(SEED.load(AO::Relaxed)) } }
  pub struct SeedH(u64);
  impl Hasher for SeedH {
    fn finish(&self) -> u64 { let mut x = self.0; x ^= x >> 33; x = x.wrapping_mul(0xff51afd7ed558ccd); x ^= x >> 29; x }
    fn write(&mut self, bytes: &[u8]) { for b in bytes { self.0 = (self.0 ^ *b as u64).wrapping_mul(0x100000001b3).rotate_left(17); } }
  }
  impl BuildHasher for SeedBH { type Hasher = SeedH; fn build_hasher(&self) -> SeedH { SeedH(self.0.wrapping_mul(0x9E3779B97F4A7C15) ^ 0xabcdef) } }
  type GS = DAG<u8, u8, SeedBH>;
  fn build(pre: u8, seed: u64) -> (GS, [Node; NH], usize) {
    SEED.store(seed, AO::Relaxed);
    let mut g: GS = DAG::default();
    let mut n = [Node(Default::default()); NH];
    let mut nh = 0usize;
    for _ in 0..3 { n[nh] = g.add_node(0); nh += 1; }
    for &(op, x, y) in prestate(pre) {
      match op {
        OP_ADD_EDGE => { let _ = g.add_edge(&n[x], &n[y], 0); }
        OP_REMOVE_EDGE => { let _ = g.remove_edge(&n[x], &n[y]); }
        OP_REMOVE_NODE => { let _ = g.remove_node(n[x]); }
        OP_REMOVE_OUT => { let _ = g.remove_outgoing_edges_of_node(&n[x]); }
        _ => { n[nh] = g.add_node(0); nh += 1; }
      }
    }
    (g, n, nh)
  }
  pub fn run(pre: u8) {
    for _ in 0..(3 + prestate(pre).len()) { let _ = vk::u8(); }
    let k = vk::below((NH * NH) as u8) as usize;
    let _mode = vk::below(5);
    let (x, y) = (k / NH, k % NH);
    let (mut b, nb, nhb) = build(pre, 0);
    if x >= nhb || y >= nhb { return; }
    let rb = b.add_edge(&nb[x], &nb[y], 1);
    for seed in 1..200u64 {
      let (mut a, na, _) = build(pre, seed);
      let ra = a.add_edge(&na[x], &na[y], 1);
      assert!(ra == rb, "C16 add_edge result is independent of hash-set iteration order");
      for h in 0..nhb {
        if a.contains_node(&na[h]) {
          assert!(a.topo_cmp(&na[h], &na[x]) == b.topo_cmp(&nb[h], &nb[x]), "C16 resulting topological order is independent of hash-set iteration order");
          assert!(a.topo_cmp(&na[h], &na[y]) == b.topo_cmp(&nb[h], &nb[y]), "C16 resulting topological order is independent of hash-set iteration order (2)");
        }
      }
    }
  }
}
#[cfg(not(kani))]
fn run_c16(pre: u8) { c16_native::run(pre) }

//@h props=C16 tier=quick unwind=45 stubs=sort timeout=1500 covers_required="needed a reorder"
fn c16_reorder_independent_of_set_order_pre10() { run_c16(10); }
//@h props=C16 tier=quick unwind=45 stubs=sort timeout=1500 covers_required="needed a reorder"
fn c16_reorder_independent_of_set_order_pre14() { run_c16(14); }
//@h props=C16 tier=quick unwind=45 stubs=sort timeout=1500 covers_required="needed a reorder"
fn c16_reorder_independent_of_set_order_pre15() { run_c16(15); }
//@h props=C16 tier=thorough unwind=45 stubs=sort timeout=1500 covers_required="needed a reorder"
fn c16_reorder_independent_of_set_order_pre5() { run_c16(5); }
//@h props=C16 tier=thorough unwind=45 stubs=sort timeout=1500 covers_required="needed a reorder"
fn c16_reorder_independent_of_set_order_pre7() { run_c16(7); }
//@h props=C16 tier=thorough unwind=45 stubs=sort timeout=1500 covers_required="needed a reorder"
fn c16_reorder_independent_of_set_order_pre9() { run_c16(9); }
//@h props=C10 tier=quick unwind=45 stubs=sort
fn c10_step_pre0() { run::<0>(0, 1, 7, NH); }
//@h props=C10 tier=quick unwind=45 stubs=sort
fn c10_step_pre1() { run::<0>(1, 1, 7, NH); }
//@h props=C10 tier=quick unwind=45 stubs=sort
fn c10_step_pre2() { run::<0>(2, 1, 7, NH); }
//@h props=C10 tier=quick unwind=45 stubs=sort
fn c10_step_pre3() { run::<0>(3, 1, 7, NH); }
//@h props=C10 tier=quick unwind=45 stubs=sort
fn c10_step_pre4() { run::<0>(4, 1, 7, NH); }
//@h props=C10 tier=quick unwind=45 stubs=sort
fn c10_step_pre5() { run::<0>(5, 1, 7, NH); }
//@h props=C10 tier=quick unwind=45 stubs=sort
fn c10_step_pre6() { run::<0>(6, 1, 7, NH); }
//@h props=C10 tier=quick unwind=45 stubs=sort
fn c10_step_pre7() { run::<0>(7, 1, 7, NH); }
//@h props=C10 tier=quick unwind=45 stubs=sort
fn c10_step_pre8() { run::<0>(8, 1, 7, NH); }
//@h props=C10 tier=quick unwind=45 stubs=sort
fn c10_step_pre9() { run::<0>(9, 1, 7, NH); }
//@h props=C10 tier=quick unwind=45 stubs=sort
fn c10_step_pre10() { run::<0>(10, 1, 7, NH); }
//@h props=C10 tier=quick unwind=45 stubs=sort
fn c10_step_pre11() { run::<0>(11, 1, 7, NH); }
//@h props=C10 tier=quick unwind=45 stubs=sort
fn c10_step_pre12() { run::<0>(12, 1, 7, NH); }
//@h props=C10 tier=quick unwind=45 stubs=sort
fn c10_step_pre13() { run::<0>(13, 1, 7, NH); }
// (catalogue entry, not registered: not run to completion within this session's budget)
#[allow(dead_code)]
fn c10_depth2_pre0_g1() { run::<0>(0, 2, 1, NH); }
// (catalogue entry, not registered: not run to completion within this session's budget)
#[allow(dead_code)]
fn c10_depth2_pre0_g2() { run::<0>(0, 2, 2, NH); }
// (catalogue entry, not registered: not run to completion within this session's budget)
#[allow(dead_code)]
fn c10_depth2_pre0_g4() { run::<0>(0, 2, 4, NH); }
// (catalogue entry, not registered: not run to completion within this session's budget)
#[allow(dead_code)]
fn c10_depth2_pre1_g1() { run::<0>(1, 2, 1, NH); }
// (catalogue entry, not registered: not run to completion within this session's budget)
#[allow(dead_code)]
fn c10_depth2_pre1_g2() { run::<0>(1, 2, 2, NH); }
// (catalogue entry, not registered: not run to completion within this session's budget)
#[allow(dead_code)]
fn c10_depth2_pre1_g4() { run::<0>(1, 2, 4, NH); }
// (catalogue entry, not registered: not run to completion within this session's budget)
#[allow(dead_code)]
fn c10_depth2_pre2_g1() { run::<0>(2, 2, 1, NH); }
// (catalogue entry, not registered: not run to completion within this session's budget)
#[allow(dead_code)]
fn c10_depth2_pre2_g2() { run::<0>(2, 2, 2, NH); }
// (catalogue entry, not registered: not run to completion within this session's budget)
#[allow(dead_code)]
fn c10_depth2_pre2_g4() { run::<0>(2, 2, 4, NH); }
// (catalogue entry, not registered: not run to completion within this session's budget)
#[allow(dead_code)]
fn c10_depth2_pre5_g1() { run::<0>(5, 2, 1, NH); }
// (catalogue entry, not registered: not run to completion within this session's budget)
#[allow(dead_code)]
fn c10_depth2_pre5_g2() { run::<0>(5, 2, 2, NH); }
// (catalogue entry, not registered: not run to completion within this session's budget)
#[allow(dead_code)]
fn c10_depth2_pre5_g4() { run::<0>(5, 2, 4, NH); }
// (catalogue entry, not registered: not run to completion within this session's budget)
#[allow(dead_code)]
fn c10_depth2_pre7_g1() { run::<0>(7, 2, 1, NH); }
// (catalogue entry, not registered: not run to completion within this session's budget)
#[allow(dead_code)]
fn c10_depth2_pre7_g2() { run::<0>(7, 2, 2, NH); }
// (catalogue entry, not registered: not run to completion within this session's budget)
#[allow(dead_code)]
fn c10_depth2_pre7_g4() { run::<0>(7, 2, 4, NH); }
// (catalogue entry, not registered: not run to completion within this session's budget)
#[allow(dead_code)]
fn c10_depth2_pre9_g1() { run::<0>(9, 2, 1, NH); }
// (catalogue entry, not registered: not run to completion within this session's budget)
#[allow(dead_code)]
fn c10_depth2_pre9_g2() { run::<0>(9, 2, 2, NH); }
// (catalogue entry, not registered: not run to completion within this session's budget)
#[allow(dead_code)]
fn c10_depth2_pre9_g4() { run::<0>(9, 2, 4, NH); }
// (catalogue entry, not registered: not run to completion within this session's budget)
#[allow(dead_code)]
fn c10_depth2_pre10_g1() { run::<0>(10, 2, 1, NH); }
// (catalogue entry, not registered: not run to completion within this session's budget)
#[allow(dead_code)]
fn c10_depth2_pre10_g2() { run::<0>(10, 2, 2, NH); }
// (catalogue entry, not registered: not run to completion within this session's budget)
#[allow(dead_code)]
fn c10_depth2_pre10_g4() { run::<0>(10, 2, 4, NH); }
// (catalogue entry, not registered: not run to completion within this session's budget)
#[allow(dead_code)]
fn c10_depth2_pre11_g1() { run::<0>(11, 2, 1, NH); }
// (catalogue entry, not registered: not run to completion within this session's budget)
#[allow(dead_code)]
fn c10_depth2_pre11_g2() { run::<0>(11, 2, 2, NH); }
// (catalogue entry, not registered: not run to completion within this session's budget)
#[allow(dead_code)]
fn c10_depth2_pre11_g4() { run::<0>(11, 2, 4, NH); }
// (catalogue entry, not registered: not run to completion within this session's budget)
#[allow(dead_code)]
fn c11_step3_pre0_g1_adj() { run::<3>(0, 1, 1, 3); }
// (catalogue entry, not registered: not run to completion within this session's budget)
#[allow(dead_code)]
fn c11_step3_pre0_g1_pair() { run::<4>(0, 1, 1, 3); }
// (catalogue entry, not registered: not run to completion within this session's budget)
#[allow(dead_code)]
fn c11_step3_pre0_g1_desc() { run::<24>(0, 1, 1, 3); }
// (catalogue entry, not registered: not run to completion within this session's budget)
#[allow(dead_code)]
fn c11_step3_pre0_g2_adj() { run::<3>(0, 1, 2, 3); }
// (catalogue entry, not registered: not run to completion within this session's budget)
#[allow(dead_code)]
fn c11_step3_pre0_g2_pair() { run::<4>(0, 1, 2, 3); }
// (catalogue entry, not registered: not run to completion within this session's budget)
#[allow(dead_code)]
fn c11_step3_pre0_g2_desc() { run::<24>(0, 1, 2, 3); }
// (catalogue entry, not registered: not run to completion within this session's budget)
#[allow(dead_code)]
fn c11_step3_pre0_g4_adj() { run::<3>(0, 1, 4, 3); }
// (catalogue entry, not registered: not run to completion within this session's budget)
#[allow(dead_code)]
fn c11_step3_pre0_g4_pair() { run::<4>(0, 1, 4, 3); }
// (catalogue entry, not registered: not run to completion within this session's budget)
#[allow(dead_code)]
fn c11_step3_pre0_g4_desc() { run::<24>(0, 1, 4, 3); }
//@h props=C11 tier=thorough unwind=45 stubs=sort timeout=1800
fn c11_step3_pre1_g1_adj() { run::<3>(1, 1, 1, 3); }
//@h props=C11 tier=thorough unwind=45 stubs=sort timeout=1800
fn c11_step3_pre1_g1_pair() { run::<4>(1, 1, 1, 3); }
//@h props=C11 tier=thorough unwind=45 stubs=sort timeout=1800
fn c11_step3_pre1_g1_desc() { run::<24>(1, 1, 1, 3); }
//@h props=C11 tier=thorough unwind=45 stubs=sort timeout=1800
fn c11_step3_pre1_g2_adj() { run::<3>(1, 1, 2, 3); }
//@h props=C11 tier=thorough unwind=45 stubs=sort timeout=1800
fn c11_step3_pre1_g2_pair() { run::<4>(1, 1, 2, 3); }
//@h props=C11 tier=thorough unwind=45 stubs=sort timeout=1800
fn c11_step3_pre1_g2_desc() { run::<24>(1, 1, 2, 3); }
//@h props=C11 tier=thorough unwind=45 stubs=sort timeout=1800
fn c11_step3_pre1_g4_adj() { run::<3>(1, 1, 4, 3); }
//@h props=C11 tier=thorough unwind=45 stubs=sort timeout=1800
fn c11_step3_pre1_g4_pair() { run::<4>(1, 1, 4, 3); }
//@h props=C11 tier=thorough unwind=45 stubs=sort timeout=1800
fn c11_step3_pre1_g4_desc() { run::<24>(1, 1, 4, 3); }
// (catalogue entry, not registered: not run to completion within this session's budget)
#[allow(dead_code)]
fn c11_step3_pre2_g1_adj() { run::<3>(2, 1, 1, 3); }
// (catalogue entry, not registered: not run to completion within this session's budget)
#[allow(dead_code)]
fn c11_step3_pre2_g1_pair() { run::<4>(2, 1, 1, 3); }
// (catalogue entry, not registered: not run to completion within this session's budget)
#[allow(dead_code)]
fn c11_step3_pre2_g1_desc() { run::<24>(2, 1, 1, 3); }
// (catalogue entry, not registered: not run to completion within this session's budget)
#[allow(dead_code)]
fn c11_step3_pre2_g2_adj() { run::<3>(2, 1, 2, 3); }
// (catalogue entry, not registered: not run to completion within this session's budget)
#[allow(dead_code)]
fn c11_step3_pre2_g2_pair() { run::<4>(2, 1, 2, 3); }
// (catalogue entry, not registered: not run to completion within this session's budget)
#[allow(dead_code)]
fn c11_step3_pre2_g2_desc() { run::<24>(2, 1, 2, 3); }
// (catalogue entry, not registered: not run to completion within this session's budget)
#[allow(dead_code)]
fn c11_step3_pre2_g4_adj() { run::<3>(2, 1, 4, 3); }
// (catalogue entry, not registered: not run to completion within this session's budget)
#[allow(dead_code)]
fn c11_step3_pre2_g4_pair() { run::<4>(2, 1, 4, 3); }
// (catalogue entry, not registered: not run to completion within this session's budget)
#[allow(dead_code)]
fn c11_step3_pre2_g4_desc() { run::<24>(2, 1, 4, 3); }
//@h props=C11 tier=quick unwind=45 stubs=sort timeout=1800
fn c11_step3_pre3_g1_adj() { run::<3>(3, 1, 1, 3); }
//@h props=C11 tier=quick unwind=45 stubs=sort timeout=1800
fn c11_step3_pre3_g1_pair() { run::<4>(3, 1, 1, 3); }
//@h props=C11 tier=quick unwind=45 stubs=sort timeout=1800
fn c11_step3_pre3_g1_desc() { run::<24>(3, 1, 1, 3); }
//@h props=C11 tier=quick unwind=45 stubs=sort timeout=1800
fn c11_step3_pre3_g2_adj() { run::<3>(3, 1, 2, 3); }
//@h props=C11 tier=quick unwind=45 stubs=sort timeout=1800
fn c11_step3_pre3_g2_pair() { run::<4>(3, 1, 2, 3); }
//@h props=C11 tier=quick unwind=45 stubs=sort timeout=1800
fn c11_step3_pre3_g2_desc() { run::<24>(3, 1, 2, 3); }
//@h props=C11 tier=quick unwind=45 stubs=sort timeout=1800
fn c11_step3_pre3_g4_adj() { run::<3>(3, 1, 4, 3); }
//@h props=C11 tier=quick unwind=45 stubs=sort timeout=1800
fn c11_step3_pre3_g4_pair() { run::<4>(3, 1, 4, 3); }
//@h props=C11 tier=quick unwind=45 stubs=sort timeout=1800
fn c11_step3_pre3_g4_desc() { run::<24>(3, 1, 4, 3); }
// (catalogue entry, not registered: not run to completion within this session's budget)
#[allow(dead_code)]
fn c11_step3_pre4_g1_adj() { run::<3>(4, 1, 1, 3); }
// (catalogue entry, not registered: not run to completion within this session's budget)
#[allow(dead_code)]
fn c11_step3_pre4_g1_pair() { run::<4>(4, 1, 1, 3); }
// (catalogue entry, not registered: not run to completion within this session's budget)
#[allow(dead_code)]
fn c11_step3_pre4_g1_desc() { run::<24>(4, 1, 1, 3); }
// (catalogue entry, not registered: not run to completion within this session's budget)
#[allow(dead_code)]
fn c11_step3_pre4_g2_adj() { run::<3>(4, 1, 2, 3); }
// (catalogue entry, not registered: not run to completion within this session's budget)
#[allow(dead_code)]
fn c11_step3_pre4_g2_pair() { run::<4>(4, 1, 2, 3); }
// (catalogue entry, not registered: not run to completion within this session's budget)
#[allow(dead_code)]
fn c11_step3_pre4_g2_desc() { run::<24>(4, 1, 2, 3); }
// (catalogue entry, not registered: not run to completion within this session's budget)
#[allow(dead_code)]
fn c11_step3_pre4_g4_adj() { run::<3>(4, 1, 4, 3); }
// (catalogue entry, not registered: not run to completion within this session's budget)
#[allow(dead_code)]
fn c11_step3_pre4_g4_pair() { run::<4>(4, 1, 4, 3); }
// (catalogue entry, not registered: not run to completion within this session's budget)
#[allow(dead_code)]
fn c11_step3_pre4_g4_desc() { run::<24>(4, 1, 4, 3); }
// (catalogue entry, not registered: not run to completion within this session's budget)
#[allow(dead_code)]
fn c11_step3_pre5_g1_adj() { run::<3>(5, 1, 1, 3); }
// (catalogue entry, not registered: not run to completion within this session's budget)
#[allow(dead_code)]
fn c11_step3_pre5_g1_pair() { run::<4>(5, 1, 1, 3); }
// (catalogue entry, not registered: not run to completion within this session's budget)
#[allow(dead_code)]
fn c11_step3_pre5_g1_desc() { run::<24>(5, 1, 1, 3); }
// (catalogue entry, not registered: not run to completion within this session's budget)
#[allow(dead_code)]
fn c11_step3_pre5_g2_adj() { run::<3>(5, 1, 2, 3); }
// (catalogue entry, not registered: not run to completion within this session's budget)
#[allow(dead_code)]
fn c11_step3_pre5_g2_pair() { run::<4>(5, 1, 2, 3); }
// (catalogue entry, not registered: not run to completion within this session's budget)
#[allow(dead_code)]
fn c11_step3_pre5_g2_desc() { run::<24>(5, 1, 2, 3); }
// (catalogue entry, not registered: not run to completion within this session's budget)
#[allow(dead_code)]
fn c11_step3_pre5_g4_adj() { run::<3>(5, 1, 4, 3); }
// (catalogue entry, not registered: not run to completion within this session's budget)
#[allow(dead_code)]
fn c11_step3_pre5_g4_pair() { run::<4>(5, 1, 4, 3); }
// (catalogue entry, not registered: not run to completion within this session's budget)
#[allow(dead_code)]
fn c11_step3_pre5_g4_desc() { run::<24>(5, 1, 4, 3); }
//@h props=C11 tier=quick unwind=45 stubs=sort timeout=1800
fn c11_step3_pre6_g1_adj() { run::<3>(6, 1, 1, 3); }
//@h props=C11 tier=quick unwind=45 stubs=sort timeout=1800
fn c11_step3_pre6_g1_pair() { run::<4>(6, 1, 1, 3); }
//@h props=C11 tier=quick unwind=45 stubs=sort timeout=1800
fn c11_step3_pre6_g1_desc() { run::<24>(6, 1, 1, 3); }
//@h props=C11 tier=thorough unwind=45 stubs=sort timeout=1800
fn c11_step3_pre6_g2_adj() { run::<3>(6, 1, 2, 3); }
//@h props=C11 tier=thorough unwind=45 stubs=sort timeout=1800
fn c11_step3_pre6_g2_pair() { run::<4>(6, 1, 2, 3); }
//@h props=C11 tier=thorough unwind=45 stubs=sort timeout=1800
fn c11_step3_pre6_g2_desc() { run::<24>(6, 1, 2, 3); }
//@h props=C11 tier=thorough unwind=45 stubs=sort timeout=1800
fn c11_step3_pre6_g4_adj() { run::<3>(6, 1, 4, 3); }
//@h props=C11 tier=quick unwind=45 stubs=sort timeout=1800
fn c11_step3_pre6_g4_pair() { run::<4>(6, 1, 4, 3); }
//@h props=C11 tier=thorough unwind=45 stubs=sort timeout=1800
fn c11_step3_pre6_g4_desc() { run::<24>(6, 1, 4, 3); }
//@h props=C11 tier=thorough unwind=45 stubs=sort timeout=1800
fn c11_step3_pre9_g1_adj() { run::<3>(9, 1, 1, 3); }
//@h props=C11 tier=thorough unwind=45 stubs=sort timeout=1800
fn c11_step3_pre9_g1_pair() { run::<4>(9, 1, 1, 3); }
//@h props=C11 tier=thorough unwind=45 stubs=sort timeout=1800
fn c11_step3_pre9_g1_desc() { run::<24>(9, 1, 1, 3); }
//@h props=C11 tier=thorough unwind=45 stubs=sort timeout=1800
fn c11_step3_pre9_g2_adj() { run::<3>(9, 1, 2, 3); }
//@h props=C11 tier=thorough unwind=45 stubs=sort timeout=1800
fn c11_step3_pre9_g2_pair() { run::<4>(9, 1, 2, 3); }
//@h props=C11 tier=thorough unwind=45 stubs=sort timeout=1800
fn c11_step3_pre9_g2_desc() { run::<24>(9, 1, 2, 3); }
//@h props=C11 tier=thorough unwind=45 stubs=sort timeout=1800
fn c11_step3_pre9_g4_adj() { run::<3>(9, 1, 4, 3); }
//@h props=C11 tier=thorough unwind=45 stubs=sort timeout=1800
fn c11_step3_pre9_g4_pair() { run::<4>(9, 1, 4, 3); }
//@h props=C11 tier=thorough unwind=45 stubs=sort timeout=1800
fn c11_step3_pre9_g4_desc() { run::<24>(9, 1, 4, 3); }
// (catalogue entry, not registered: not run to completion within this session's budget)
#[allow(dead_code)]
fn c11_step4_pre7_g1_adj() { run::<3>(7, 1, 1, NH); }
// (catalogue entry, not registered: not run to completion within this session's budget)
#[allow(dead_code)]
fn c11_step4_pre7_g1_pair() { run::<4>(7, 1, 1, NH); }
// (catalogue entry, not registered: not run to completion within this session's budget)
#[allow(dead_code)]
fn c11_step4_pre7_g1_desc() { run::<24>(7, 1, 1, NH); }
// (catalogue entry, not registered: not run to completion within this session's budget)
#[allow(dead_code)]
fn c11_step4_pre7_g2_adj() { run::<3>(7, 1, 2, NH); }
// (catalogue entry, not registered: not run to completion within this session's budget)
#[allow(dead_code)]
fn c11_step4_pre7_g2_pair() { run::<4>(7, 1, 2, NH); }
// (catalogue entry, not registered: not run to completion within this session's budget)
#[allow(dead_code)]
fn c11_step4_pre7_g2_desc() { run::<24>(7, 1, 2, NH); }
// (catalogue entry, not registered: not run to completion within this session's budget)
#[allow(dead_code)]
fn c11_step4_pre7_g4_adj() { run::<3>(7, 1, 4, NH); }
// (catalogue entry, not registered: not run to completion within this session's budget)
#[allow(dead_code)]
fn c11_step4_pre7_g4_pair() { run::<4>(7, 1, 4, NH); }
// (catalogue entry, not registered: not run to completion within this session's budget)
#[allow(dead_code)]
fn c11_step4_pre7_g4_desc() { run::<24>(7, 1, 4, NH); }
// (catalogue entry, not registered: not run to completion within this session's budget)
#[allow(dead_code)]
fn c11_step4_pre8_g1_adj() { run::<3>(8, 1, 1, NH); }
// (catalogue entry, not registered: not run to completion within this session's budget)
#[allow(dead_code)]
fn c11_step4_pre8_g1_pair() { run::<4>(8, 1, 1, NH); }
// (catalogue entry, not registered: not run to completion within this session's budget)
#[allow(dead_code)]
fn c11_step4_pre8_g1_desc() { run::<24>(8, 1, 1, NH); }
// (catalogue entry, not registered: not run to completion within this session's budget)
#[allow(dead_code)]
fn c11_step4_pre8_g2_adj() { run::<3>(8, 1, 2, NH); }
// (catalogue entry, not registered: not run to completion within this session's budget)
#[allow(dead_code)]
fn c11_step4_pre8_g2_pair() { run::<4>(8, 1, 2, NH); }
// (catalogue entry, not registered: not run to completion within this session's budget)
#[allow(dead_code)]
fn c11_step4_pre8_g2_desc() { run::<24>(8, 1, 2, NH); }
// (catalogue entry, not registered: not run to completion within this session's budget)
#[allow(dead_code)]
fn c11_step4_pre8_g4_adj() { run::<3>(8, 1, 4, NH); }
// (catalogue entry, not registered: not run to completion within this session's budget)
#[allow(dead_code)]
fn c11_step4_pre8_g4_pair() { run::<4>(8, 1, 4, NH); }
// (catalogue entry, not registered: not run to completion within this session's budget)
#[allow(dead_code)]
fn c11_step4_pre8_g4_desc() { run::<24>(8, 1, 4, NH); }
// (catalogue entry, not registered: not run to completion within this session's budget)
#[allow(dead_code)]
fn c11_step4_pre10_g1_adj() { run::<3>(10, 1, 1, NH); }
// (catalogue entry, not registered: not run to completion within this session's budget)
#[allow(dead_code)]
fn c11_step4_pre10_g1_pair() { run::<4>(10, 1, 1, NH); }
// (catalogue entry, not registered: not run to completion within this session's budget)
#[allow(dead_code)]
fn c11_step4_pre10_g1_desc() { run::<24>(10, 1, 1, NH); }
// (catalogue entry, not registered: not run to completion within this session's budget)
#[allow(dead_code)]
fn c11_step4_pre10_g2_adj() { run::<3>(10, 1, 2, NH); }
// (catalogue entry, not registered: not run to completion within this session's budget)
#[allow(dead_code)]
fn c11_step4_pre10_g2_pair() { run::<4>(10, 1, 2, NH); }
// (catalogue entry, not registered: not run to completion within this session's budget)
#[allow(dead_code)]
fn c11_step4_pre10_g2_desc() { run::<24>(10, 1, 2, NH); }
// (catalogue entry, not registered: not run to completion within this session's budget)
#[allow(dead_code)]
fn c11_step4_pre10_g4_adj() { run::<3>(10, 1, 4, NH); }
// (catalogue entry, not registered: not run to completion within this session's budget)
#[allow(dead_code)]
fn c11_step4_pre10_g4_pair() { run::<4>(10, 1, 4, NH); }
// (catalogue entry, not registered: not run to completion within this session's budget)
#[allow(dead_code)]
fn c11_step4_pre10_g4_desc() { run::<24>(10, 1, 4, NH); }
// (catalogue entry, not registered: not run to completion within this session's budget)
#[allow(dead_code)]
fn c11_step4_pre11_g1_adj() { run::<3>(11, 1, 1, NH); }
// (catalogue entry, not registered: not run to completion within this session's budget)
#[allow(dead_code)]
fn c11_step4_pre11_g1_pair() { run::<4>(11, 1, 1, NH); }
// (catalogue entry, not registered: not run to completion within this session's budget)
#[allow(dead_code)]
fn c11_step4_pre11_g1_desc() { run::<24>(11, 1, 1, NH); }
// (catalogue entry, not registered: not run to completion within this session's budget)
#[allow(dead_code)]
fn c11_step4_pre11_g2_adj() { run::<3>(11, 1, 2, NH); }
// (catalogue entry, not registered: not run to completion within this session's budget)
#[allow(dead_code)]
fn c11_step4_pre11_g2_pair() { run::<4>(11, 1, 2, NH); }
// (catalogue entry, not registered: not run to completion within this session's budget)
#[allow(dead_code)]
fn c11_step4_pre11_g2_desc() { run::<24>(11, 1, 2, NH); }
// (catalogue entry, not registered: not run to completion within this session's budget)
#[allow(dead_code)]
fn c11_step4_pre11_g4_adj() { run::<3>(11, 1, 4, NH); }
// (catalogue entry, not registered: not run to completion within this session's budget)
#[allow(dead_code)]
fn c11_step4_pre11_g4_pair() { run::<4>(11, 1, 4, NH); }
// (catalogue entry, not registered: not run to completion within this session's budget)
#[allow(dead_code)]
fn c11_step4_pre11_g4_desc() { run::<24>(11, 1, 4, NH); }
// (catalogue entry, not registered: not run to completion within this session's budget)
#[allow(dead_code)]
fn c11_step4_pre12_g1_adj() { run::<3>(12, 1, 1, NH); }
// (catalogue entry, not registered: not run to completion within this session's budget)
#[allow(dead_code)]
fn c11_step4_pre12_g1_pair() { run::<4>(12, 1, 1, NH); }
// (catalogue entry, not registered: not run to completion within this session's budget)
#[allow(dead_code)]
fn c11_step4_pre12_g1_desc() { run::<24>(12, 1, 1, NH); }
// (catalogue entry, not registered: not run to completion within this session's budget)
#[allow(dead_code)]
fn c11_step4_pre12_g2_adj() { run::<3>(12, 1, 2, NH); }
// (catalogue entry, not registered: not run to completion within this session's budget)
#[allow(dead_code)]
fn c11_step4_pre12_g2_pair() { run::<4>(12, 1, 2, NH); }
// (catalogue entry, not registered: not run to completion within this session's budget)
#[allow(dead_code)]
fn c11_step4_pre12_g2_desc() { run::<24>(12, 1, 2, NH); }
// (catalogue entry, not registered: not run to completion within this session's budget)
#[allow(dead_code)]
fn c11_step4_pre12_g4_adj() { run::<3>(12, 1, 4, NH); }
// (catalogue entry, not registered: not run to completion within this session's budget)
#[allow(dead_code)]
fn c11_step4_pre12_g4_pair() { run::<4>(12, 1, 4, NH); }
// (catalogue entry, not registered: not run to completion within this session's budget)
#[allow(dead_code)]
fn c11_step4_pre12_g4_desc() { run::<24>(12, 1, 4, NH); }
// (catalogue entry, not registered: not run to completion within this session's budget)
#[allow(dead_code)]
fn c11_step4_pre13_g1_adj() { run::<3>(13, 1, 1, NH); }
// (catalogue entry, not registered: not run to completion within this session's budget)
#[allow(dead_code)]
fn c11_step4_pre13_g1_pair() { run::<4>(13, 1, 1, NH); }
// (catalogue entry, not registered: not run to completion within this session's budget)
#[allow(dead_code)]
fn c11_step4_pre13_g1_desc() { run::<24>(13, 1, 1, NH); }
// (catalogue entry, not registered: not run to completion within this session's budget)
#[allow(dead_code)]
fn c11_step4_pre13_g2_adj() { run::<3>(13, 1, 2, NH); }
// (catalogue entry, not registered: not run to completion within this session's budget)
#[allow(dead_code)]
fn c11_step4_pre13_g2_pair() { run::<4>(13, 1, 2, NH); }
// (catalogue entry, not registered: not run to completion within this session's budget)
#[allow(dead_code)]
fn c11_step4_pre13_g2_desc() { run::<24>(13, 1, 2, NH); }
// (catalogue entry, not registered: not run to completion within this session's budget)
#[allow(dead_code)]
fn c11_step4_pre13_g4_adj() { run::<3>(13, 1, 4, NH); }
// (catalogue entry, not registered: not run to completion within this session's budget)
#[allow(dead_code)]
fn c11_step4_pre13_g4_pair() { run::<4>(13, 1, 4, NH); }
// (catalogue entry, not registered: not run to completion within this session's budget)
#[allow(dead_code)]
fn c11_step4_pre13_g4_desc() { run::<24>(13, 1, 4, NH); }
// (catalogue entry, not registered: not run to completion within this session's budget)
#[allow(dead_code)]
fn c11_query_pairs_pre1() { run_query_pairs(1); }
//@h props=C11 tier=thorough unwind=45 stubs=sort timeout=1800
fn c11_query_pairs_pre6() { run_query_pairs(6); }
//@h props=C11 tier=quick unwind=45 stubs=sort timeout=1800
fn c11_query_pairs_pre12() { run_query_pairs(12); }
//@h props=C11 tier=quick unwind=45 stubs=sort timeout=1800
fn c11_query_pairs_pre13() { run_query_pairs(13); }
// (catalogue entry, not registered: not run to completion within this session's budget)
#[allow(dead_code)]
fn c11_query_pairs_pre11() { run_query_pairs(11); }
// (catalogue entry, not registered: not run to completion within this session's budget)
#[allow(dead_code)]
fn c11_query_pairs_pre7() { run_query_pairs(7); }
