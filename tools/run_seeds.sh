#!/bin/bash
# run_seeds.sh [seed...]: apply each seeded change to /repo, run the relevant check(s), undo, record the outcome.
# Writes seeded/RESULTS.md lines "seed property harnesses -> exit code / VIOLATION lines" and updates meta.json.detected_by.
cd /verif
declare -A PLAN=(
 [C01-1]="C01:session_checker_error_then_recovery"
 [C01-2]="C01:session_td_two_roots_share_a_dependency"
 [C07-1]="C07:session_cyclic_requires_abort C11:c11_step3_pre6_g1_pair"
 [C07-2]="C07:session_cyclic_requires_abort,ctx_require_closing_a_cycle_aborts"
 [C14-1]="C14:c14_equals_checker_and_stamp_routes"
 [C14-2]="C14:c14_typed_state_isolation"
 [C16-1]="C16:c16_reorder_independent_of_set_order_pre10"
 [C16-2]="C16:c16_reorder_independent_of_set_order_pre10 C04:bu_schedule_affected_by_resource_iff_inconsistent"
 [C02-1]="C02:td_check_order_read_require_read"
 [C02-2]="C02:td_make_consistent_once"
 [C04-1]="C11:c11_query_pairs_pre12,c11_query_pairs_pre13 C04:bu_queue_require_now_then_pop_chain"
 [C04-2]="C04:bu_queue_require_now_then_pop_pairs,bu_queue_require_now_then_pop_chain"
 [C05-1]="C05:ctx_write_with_unrelated_reader_aborts"
 [C05-2]="C05:ctx_hidden_read_after_positive_query_aborts C11:c11_query_pairs_pre12"
 [C06-1]="C06:ctx_write_to_resource_of_other_writer_aborts"
 [C06-2]="C06:ctx_write_to_resource_of_other_writer_aborts,session_overlapping_write_aborts"
 [C08-1]="C08:ctx_reset_then_rerecord_is_exact,session_td_dynamic_dependencies"
 [C08-2]="C08:ctx_reset_then_rerecord_is_exact"
 [C09-1]="C09:td_check_order_read_require_read"
 [C09-2]="C09:session_td_coarse_checkers C04:bu_schedule_affected_by_resource_iff_inconsistent"
 [C10-1]="C10:c10_step_pre1,c10_step_pre7,c10_step_pre11"
 [C10-2]="C10:c10_step_pre10,c10_step_pre13,c10_step_pre7"
 [C11-1]="C11:c11_query_pairs_pre12,c11_query_pairs_pre13"
 [C11-2]="C11:c11_step3_pre6_g1_pair,c11_step3_pre3_g1_pair"
 [C12-1]="C12:"
 [C12-2]="C12:"
 [C15-1]="C15:c15_store_resource_nodes"
 [C15-2]="C15:c15_keyobj_pairs,c15_taskobj_pairs"
 [C17-1]="C17:td_check_emits_end_event_also_on_error"
 [C17-2]="C17:c17_tracking_start_end_pairs"
 [C18-1]="C18:bu_schedule_error_reported_when_task_already_scheduled"
 [C18-2]="C18:td_check_order_require_read_require,session_checker_error_then_recovery"
 [C19-own-1]="C19:session_c19_first_build_aborted_in_nested_task"
 [C01-3]="C01:session_td_two_roots_share_a_dependency"
 [C09-3]="C09:session_td_two_roots_share_a_dependency"
 [C11-3]="C11:c11_query_pairs_pre12,c11_query_pairs_pre13"
 [C04-3]="C04:bu_queue_rerank_between_operations_pairs,bu_queue_rerank_between_operations_independent"
 [C20-3]="C20:session_c20_writer_role_moves_after_check_error C18:session_checker_error_then_recovery"
)
SEEDS=${@:-$(ls seeded | grep -E '^C[0-9]+-[0-9]+$')}
for s in $SEEDS; do
  plan=${PLAN[$s]}
  git -C ${VERIF_REPO:-/repo} checkout -q -- . ; git -C ${VERIF_REPO:-/repo} apply /verif/seeded/$s/patch.diff || { echo "$s: patch does not apply" >> seeded/RESULTS.md; continue; }
  detected=""
  for item in $plan; do
    prop=${item%%:*}; hs=${item#*:}
    args=""; IFS=',' read -ra arr <<< "$hs"; for h in "${arr[@]}"; do [ -n "$h" ] && args="$args --harness $h"; done
    out=$(./vcheck $prop --no-evidence $args 2>&1); rc=$?
    viol=$(echo "$out" | grep -E "^VIOLATION|violated:" | head -4 | tr '\n' ';' | cut -c1-400)
    inc=$(echo "$out" | grep -E "^INCONCLUSIVE" | head -2 | tr '\n' ';' | cut -c1-300)
    echo "- $s | check $prop [$hs] | exit=$rc | $viol $inc" >> seeded/RESULTS.md
    if [ $rc -eq 1 ]; then detected="$detected $prop:$hs"; fi
  done
  git -C ${VERIF_REPO:-/repo} checkout -q -- .
  python3 - "$s" "$detected" <<'PY'
import json,sys
s,d=sys.argv[1],sys.argv[2].strip()
p=f'/verif/seeded/{s}/meta.json'; m=json.load(open(p))
m['detected_by']=d if d else None
m['checks_run']='see seeded/RESULTS.md'
json.dump(m,open(p,'w'),indent=1)
PY
done
git -C ${VERIF_REPO:-/repo} status --short | head -3
