#!/bin/bash
# seedtest.sh <seed-name> <PROP> [extra vcheck args]: apply seeded/<seed-name>/patch.diff to /repo, run the check, undo.
S=$1; P=$2; shift 2
cd /repo && git apply /verif/seeded/$S/patch.diff || exit 9
trap 'git -C /repo checkout -- . ; git -C /repo clean -qfd' EXIT
cd /verif && ./vcheck $P --no-evidence "$@" 2>&1 | grep -E "VIOLATION|violated|INCONCLUSIVE|OK:|FAIL|KNOWN" | head -20
echo "exit=${PIPESTATUS[0]}"
