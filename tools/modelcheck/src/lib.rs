//! Native differential validation of the container models against the real crates (decides no property).
#![cfg(test)]
use std::collections::HashMap as RealMap;
use kstd::collections::HashMap as ModelMap;

fn lcg(s: &mut u64) -> u64 { *s = s.wrapping_mul(6364136223846793005).wrapping_add(1442695040888963407); *s >> 33 }

#[test]
fn linked_hash_set_matches() {
  for seed in 0..200u64 {
    let mut s = seed + 1;
    let mut r: hashlink_real::LinkedHashSet<u8> = Default::default();
    let mut m: hashlink_model::LinkedHashSet<u8> = Default::default();
    for _ in 0..12 {
      let x = (lcg(&mut s) % 5) as u8;
      match lcg(&mut s) % 4 {
        0 | 1 => { if m.len() < 5 || m.contains(&x) { assert_eq!(r.insert(x), m.insert(x), "insert (re-insert moves to back)"); } }
        2 => assert_eq!(r.remove(&x), m.remove(&x), "remove"),
        _ => assert_eq!(r.contains(&x), m.contains(&x), "contains"),
      }
      assert_eq!(r.len(), m.len());
      assert_eq!(r.iter().copied().collect::<Vec<_>>(), m.iter().copied().collect::<Vec<_>>(), "iteration order");
    }
    let a: Vec<u8> = r.drain().collect(); let b: Vec<u8> = m.drain().collect();
    assert_eq!(a, b, "drain order"); assert!(r.is_empty() && m.is_empty());
  }
}

#[test]
fn slotmap_matches() {
  for seed in 0..200u64 {
    let mut s = seed + 7;
    let mut r: slotmap_real::SlotMap<slotmap_real::DefaultKey, u8> = Default::default();
    let mut m: slotmap_model::SlotMap<slotmap_model::DefaultKey, u8> = Default::default();
    let mut keys: Vec<(slotmap_real::DefaultKey, slotmap_model::DefaultKey)> = vec![];
    for step in 0..14u8 {
      match lcg(&mut s) % 3 {
        0 => { if m.len() < 5 { keys.push((r.insert(step), m.insert(step))); } }
        1 => { if !keys.is_empty() { let (kr, km) = keys[(lcg(&mut s) as usize) % keys.len()]; assert_eq!(r.remove(kr), m.remove(km), "remove (incl. stale keys)"); } }
        _ => { if !keys.is_empty() { let (kr, km) = keys[(lcg(&mut s) as usize) % keys.len()]; assert_eq!(r.get(kr), m.get(km), "get"); assert_eq!(r.contains_key(kr), m.contains_key(km)); } }
      }
      assert_eq!(r.len(), m.len());
      assert_eq!(r.iter().map(|(_, v)| *v).collect::<Vec<_>>(), m.iter().map(|(_, v)| *v).collect::<Vec<_>>(), "slot-order iteration incl. LIFO slot reuse");
      for v in r.values_mut() { *v = v.wrapping_add(1); } for v in m.values_mut() { *v = v.wrapping_add(1); }
    }
  }
}

#[test]
fn hash_map_matches() {
  for seed in 0..200u64 {
    let mut s = seed + 13;
    let mut r: RealMap<u8, u8> = RealMap::new();
    let mut m: ModelMap<u8, u8> = ModelMap::new();
    for step in 0..16u8 {
      let k = (lcg(&mut s) % 6) as u8;
      match lcg(&mut s) % 5 {
        0 => { if m.len() < 6 || m.contains_key(&k) { assert_eq!(r.insert(k, step), m.insert(k, step), "insert"); } }
        1 => assert_eq!(r.remove(&k), m.remove(&k), "remove"),
        2 => assert_eq!(r.get(&k), m.get(&k), "get"),
        3 => { if m.len() < 6 || m.contains_key(&k) { assert_eq!(*r.entry(k).or_insert(step), *m.entry(k).or_insert(step), "entry.or_insert"); } }
        _ => { if let (Some(a), Some(b)) = (r.get_mut(&k), m.get_mut(&k)) { *a += 1; *b += 1; } }
      }
      assert_eq!(r.len(), m.len());
      let mut a: Vec<(u8, u8)> = r.iter().map(|(k, v)| (*k, *v)).collect(); a.sort();
      let mut b: Vec<(u8, u8)> = m.iter().map(|(k, v)| (*k, *v)).collect(); b.sort();
      assert_eq!(a, b, "contents (iteration order of the real map is unspecified)");
    }
  }
}
