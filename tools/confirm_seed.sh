#!/bin/bash
# confirm_seed.sh <worktree> <seed-dir>  : confirms (1) suite passes with patch, (2) demo passes clean, (3) demo fails with patch.
# Writes <seed-dir>/confirm.log and prints one summary line.
WT=$1; SD=$2
export CARGO_NET_OFFLINE=true CARGO_TARGET_DIR=/var/tmp/seed-target
cd $WT || exit 9
git checkout -q -- . ; git clean -qfd -e SEED
LOG=$SD/confirm.log; : > $LOG
demo_tests() { # names of test targets added by demo.diff
  grep '^+++ b/' $SD/demo.diff | sed 's#^+++ b/##'
}
run_demo() {
  local rc=0
  for f in $(demo_tests); do
    case $f in
      pie/tests/*.rs) t=$(basename $f .rs); cargo test --offline -p pie --test $t >>$LOG 2>&1 || rc=1;;
      graph/tests/*.rs) t=$(basename $f .rs); cargo test --offline -p pie_graph --test $t >>$LOG 2>&1 || rc=1;;
      *) cargo test --offline --workspace --no-fail-fast >>$LOG 2>&1 || rc=1;;
    esac
  done
  return $rc
}
# (1) suite with patch only
git apply $SD/patch.diff || { echo "SEED $SD: patch does not apply"; exit 1; }
echo "== suite with patch" >>$LOG
cargo test --workspace --no-fail-fast --offline >>$LOG 2>&1; SUITE=$?
# (3) demo with patch
git apply $SD/demo.diff || { echo "SEED $SD: demo does not apply on patched"; git checkout -q -- .; git clean -qfd -e SEED; exit 1; }
echo "== demo with patch" >>$LOG
run_demo; DEMO_PATCHED=$?
git checkout -q -- . ; git clean -qfd -e SEED
# (2) demo clean
git apply $SD/demo.diff
echo "== demo clean" >>$LOG
run_demo; DEMO_CLEAN=$?
git checkout -q -- . ; git clean -qfd -e SEED
echo "SEED $SD: suite_with_patch_rc=$SUITE demo_clean_rc=$DEMO_CLEAN demo_patched_rc=$DEMO_PATCHED"
